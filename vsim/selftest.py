import json
import sys


def main(argv):
    if not argv:
        print("selftest: determinism | replay-fidelity | c07digest <seed> <n>")
        return 2
    if argv[0] == "c07digest":
        from . import repro
        print("DIGESTS " + json.dumps(repro.digests_for(int(argv[1]), int(argv[2]))))
        return 0
    if argv[0] == "c20digest":
        from . import toolscmp
        print("DIGESTS " + json.dumps(toolscmp.jitter_digests(int(argv[1]), int(argv[2]))))
        return 0
    from . import selftests
    return selftests.main(argv)
