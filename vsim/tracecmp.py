"""CMP driver for C13 (trace replay) and C14 (CSV round trip, malformed files).
Real CSVWorkloadReader / CSVWorkloadWriter / WorkloadTrace / WorkloadTraceGenerator
/ WorkloadGenerator on in-memory files; the clock is the tick counter, jumped
to just before the next expected arrival where the scenario asks for it."""
import io
import math
from fractions import Fraction as F

from .common import Violation, Discard, import_repo, digest
from .model import frac, near, BAND
from .exdrv import fstr

HEADER = "pipeline_id,arrival_seconds,priority,operator_id,parents,baseline_cpu_seconds,cpu_scaling,memory_gb,storage_read_gb"
LAWS = ("const", "log", "sqrt", "linear3", "linear7", "squared", "exp")
PRIOS = ("QUERY", "INTERACTIVE", "BATCH_PIPELINE")


def rows_to_text(rows, order=None):
    """CSV text of the rows; columns in the canonical order, or (the reader goes by header names) in another one"""
    import csv
    f = io.StringIO()
    w = csv.writer(f, lineterminator="\n")
    cols = HEADER.split(",")
    idx = list(range(len(cols)))
    if order == "reversed":
        idx = idx[::-1]
    elif order == "arrival_last":
        idx = [i for i in idx if cols[i] != "arrival_seconds"] + [cols.index("arrival_seconds")]
    elif order == "id_last":
        idx = idx[1:] + idx[:1]
    w.writerow([cols[i] for i in idx])
    for r in rows:
        w.writerow([r[i] for i in idx])
    return f.getvalue()


def simple_rows(pid, arrival, nops=1, prio="BATCH_PIPELINE"):
    out = []
    for i in range(nops):
        out.append([pid, arrival if i == 0 else "", prio if i == 0 else "", "op%d" % (i + 1),
                    "op%d" % i if i else "", "1", "const", "", "1"])
    return out


# ---------------------------------------------------------------------------
# C13: replay of a trace
# ---------------------------------------------------------------------------
def expected_tick(arrival_str, tps):
    """(set of acceptable ticks, strict_tick or None, on_grid flag)"""
    x = frac(arrival_str) * tps
    if x < 0:
        return {0}, False        # a backlog from before the run: first tick whose start is at or after the arrival time
    k = round(x)
    if near(x, k):
        if x == k:
            return {k}, True     # exactly on the grid as a decimal: the statement demands k
        return {k, k + 1}, False
    return {math.ceil(x)}, False


def float_quotient_exceeds(arrival_str, tps, k):
    """the D9 mechanism: arrival / (1.0 / tps) computed in floats lands above k"""
    return float(arrival_str) / (1.0 / tps) > k


def run_trace(scn):
    import_repo()
    from eudoxia.workload.csv_io import CSVWorkloadReader
    tps = scn["tps"]
    nticks = scn["nticks"]
    arrivals = scn.get("arrivals")        # decimal strings, non-decreasing
    if scn.get("big"):
        # size reach: a trace of many MiB, described compactly (per_tick pipelines in every tick, exact dyadic arrivals)
        b = scn["big"]
        arrivals = [fstr(F(k // b["per_tick"], tps)) for k in range(b["n"])]
        scn = dict(scn, nops=[b["nops"]] * b["n"])
    nops = scn.get("nops") or [1] * len(arrivals)
    out = {"violation": None, "discard": None, "faults": {}, "probes": {}, "ticks": 0, "nontrivial": False}
    rows = []
    for j, a in enumerate(arrivals):
        rows += simple_rows("p%d" % (j + 1), a, nops[j], PRIOS[j % 3])
    text = "" if scn.get("empty_file") else rows_to_text(rows, scn.get("col_order"))
    if scn.get("big"):
        out["probes_big"] = len(text)
    exp = [expected_tick(a, tps) for a in arrivals]
    delivered = {}
    order = []
    probes = {"on_grid": sum(1 for e in exp if e[1]), "in_band": sum(1 for e in exp if len(e[0]) > 1),
              "beyond_end": 0, "equal_arrivals": sum(1 for i in range(1, len(arrivals)) if arrivals[i] == arrivals[i - 1]),
              "jumps": 0}
    try:
        wt = CSVWorkloadReader(io.StringIO(text)).get_workload(tps)
        # windows around every expected delivery; the clock is only jumped between windows
        wins = sorted(set((max(0, min(e[0]) - 2), max(e[0]) + 2) for e in exp))
        wi = 0
        t = 0
        while t < nticks:
            if scn.get("jump"):
                while wi < len(wins) and wins[wi][1] < t:
                    wi += 1
                nxt = wins[wi][0] if wi < len(wins) else nticks - 1
                if nxt > t + 1:
                    # discrete-event jump: nothing can be due before the next window
                    t = min(nxt, nticks - 1)
                    wt.current_tick = t
                    probes["jumps"] += 1
            got = wt.run_one_tick()
            for p in got:
                if p.pipeline_id in delivered:
                    raise Violation("C13.duplicate", {"pipeline": p.pipeline_id, "first": delivered[p.pipeline_id], "again": t,
                                                      "tps": tps}, t)
                delivered[p.pipeline_id] = t
                order.append(p.pipeline_id)
            t += 1
            out["ticks"] = t
        late_known = None
        for j, a in enumerate(arrivals):
            pid = "p%d" % (j + 1)
            acc, on_grid = exp[j]
            d = delivered.get(pid)
            inside = [e for e in acc if e < nticks]
            if not inside:
                probes["beyond_end"] += 1
                if d is not None:
                    raise Violation("C13.delivered_after_end", {"pipeline": pid, "arrival": a, "tps": tps, "tick": d, "run_ticks": nticks}, d)
                continue
            if d is None:
                if len(inside) < len(acc):
                    continue      # in the band at the very end of the run
                k = min(acc)
                if on_grid and k == nticks - 1 and float_quotient_exceeds(a, tps, k):
                    late_known = late_known or Violation("C13.late_on_grid", {
                        "pipeline": pid, "arrival": a, "tps": tps, "expected_tick": k, "delivered": "never (run ended)",
                        "late_by": 1, "float_quotient_exceeds_tick": True}, k)
                    continue
                raise Violation("C13.never_delivered", {"pipeline": pid, "arrival": a, "tps": tps, "expected_tick": sorted(acc),
                                                        "run_ticks": nticks}, None)
            if d in acc:
                continue
            if d < min(acc):
                raise Violation("C13.early", {"pipeline": pid, "arrival": a, "tps": tps, "delivered": d, "expected_tick": sorted(acc)}, d)
            k = min(acc)
            if on_grid and d == k + 1 and float_quotient_exceeds(a, tps, k):
                late_known = late_known or Violation("C13.late_on_grid", {
                    "pipeline": pid, "arrival": a, "tps": tps, "expected_tick": k, "delivered": d,
                    "late_by": 1, "float_quotient_exceeds_tick": True}, d)
                continue
            raise Violation("C13.late", {"pipeline": pid, "arrival": a, "tps": tps, "delivered": d, "expected_tick": sorted(acc),
                                         "late_by": d - max(acc)}, d)
        want_order = ["p%d" % (j + 1) for j in range(len(arrivals)) if "p%d" % (j + 1) in delivered]
        if order != want_order:
            raise Violation("C13.order", {"delivered_order": order[:30], "file_order": want_order[:30], "tps": tps}, None)
        if late_known is not None:
            raise late_known
    except Violation as v:
        out["violation"] = v.to_json()
    except Exception as e:  # noqa: BLE001 - a well-formed trace in arrival order must replay
        out["violation"] = Violation("C13.raises", {"exc": repr(e)[:200], "tps": tps, "pipelines": len(arrivals)}).to_json()
    if not arrivals:
        probes["empty_trace"] = 1
    if scn.get("big"):
        probes["trace_mib"] = out.pop("probes_big") // 2 ** 20
        probes["big_trace"] = 1
    out["probes"] = probes
    out["faults"] = {k: v for k, v in probes.items() if k in ("on_grid", "in_band", "beyond_end", "equal_arrivals", "empty_trace", "big_trace") and v}
    out["nontrivial"] = bool(out["faults"])
    out["sim_s"] = nticks / tps
    out["sig"] = digest([tps, nticks, arrivals[:50]])
    return out


def gen_trace(r, avoid_known=True):
    tps = r.choice([1, 2, 3, 5, 7, 10, 10, 16, 30, 100, 250, 1000, 10 ** 4, 10 ** 5])
    if r.random() < 0.02:
        # a header-only trace is a valid workload: nothing ever arrives
        return {"kind": "trace", "tps": tps, "nticks": r.randint(1, 50), "arrivals": [], "nops": [], "jump": False,
                "empty_file": r.random() < 0.3}
    n = r.randint(1, 50)
    far = r.random() < 0.3
    t = F(0)
    arrivals = []
    kind = r.choice(["grid", "off", "mixed", "mixed"])
    for _ in range(n):
        gap_kind = r.random()
        if gap_kind < 0.2 and arrivals:
            arrivals.append(arrivals[-1])     # equal arrival: file order must be kept
            continue
        if far and gap_kind > 0.9:
            gap = r.randint(10 ** 4, 3 * 10 ** 6)
        elif gap_kind > 0.7 and kind != "grid":
            gap = 0          # several different arrival times inside one tick: each is a batch of its own
        else:
            gap = r.randint(0, 40)
        k = int(t * tps) + gap
        for _try in range(20):
            if kind == "grid" or (kind == "mixed" and r.random() < 0.5):
                x = F(k)
            else:
                x = F(k) + F(r.randint(1, 999999), 10 ** 6)
            a = x / tps
            s = fstr(a) if _finite(a) else ("%.9f" % float(a))
            kk = round(frac(s) * tps)
            if avoid_known and frac(s) * tps == kk and float_quotient_exceeds(s, tps, kk):
                k += 1      # route around known finding D9 in most runs
                continue
            break
        if arrivals and frac(s) < frac(arrivals[-1]):
            s = arrivals[-1]
        arrivals.append(s)
        t = frac(s)
    if r.random() < 0.12:
        # a backlog submitted before the measured window
        nb = r.randint(1, 4)
        neg = sorted(-F(r.randint(1, 5000), 100) / tps * r.choice([1, 1, 50]) for _ in range(nb))
        arrivals = [fstr(a) if _finite(a) else ("%.9f" % float(a)) for a in neg] + arrivals
    last = max(0, int(frac(arrivals[-1]) * tps))
    end_kind = r.random()
    if end_kind < 0.6:
        nticks = last + r.randint(2, 10)
    elif end_kind < 0.8:
        nticks = max(1, last - r.randint(0, 5))          # some arrivals beyond the end
    else:
        nticks = last + 1
    jump = far or nticks > 3000
    if nticks > 3000 and not jump:
        nticks = 3000
    nticks = max(1, nticks)
    return {"kind": "trace", "tps": tps, "nticks": nticks, "arrivals": arrivals,
            "nops": [r.choice([1, 1, 2, 3]) for _ in arrivals], "jump": jump,
            "col_order": r.choice([None] * 10 + ["reversed", "arrival_last", "id_last"])}


def gen_bigtrace(r, tier):
    tps = r.choice([1, 2, 4, 8, 16])
    per_tick = r.choice([5, 20, 100, 400])
    n = r.choice([15000, 40000, 70000, 120000] if tier == "quick" else [15000, 40000, 70000, 120000, 250000])
    n += r.randint(0, 5000)
    return {"kind": "trace", "tps": tps, "nticks": n // per_tick + r.randint(1, 4), "jump": False,
            "big": {"n": n, "per_tick": per_tick, "nops": r.choice([1, 3, 3])}}


def _finite(a):
    d = a.denominator
    while d % 2 == 0:
        d //= 2
    while d % 5 == 0:
        d //= 5
    return d == 1


def gen_gridsweep(r, tier):
    """every k in a window of consecutive ticks at a seeded offset, as one trace"""
    tps = r.choice([1, 2, 3, 7, 10, 16, 30, 100, 250, 1000, 10 ** 4, 10 ** 5])
    width = 2000 if tier == "quick" else 20000
    off = r.choice([0, r.randint(0, 10 ** 4), r.randint(0, 5 * 10 ** 6)])
    arrivals = []
    for k in range(off, off + width):
        a = F(k, tps)
        arrivals.append(fstr(a) if _finite(a) else repr(k / tps))
    return {"kind": "trace", "tps": tps, "nticks": off + width + 2, "arrivals": arrivals, "jump": True, "sweep": True}


# ---------------------------------------------------------------------------
# C13: gentrace round trip (real generator -> rows -> file -> reader -> trace)
# ---------------------------------------------------------------------------
def gen_params(r):
    from .sysgen import PROB_TRIPLES
    tps = r.choice([1, 2, 3, 5, 7, 10, 10, 16, 30, 100, 250, 1000, 1000, 10 ** 4, 10 ** 5])
    i, q, b = r.choice(PROB_TRIPLES)
    nticks = r.randint(30, 600)
    dur = F(nticks, tps)
    if r.random() < 0.15:
        dur += F(r.choice([1, 5, 9]), 10 * tps)      # not a whole number of ticks
    return {"ticks_per_second": tps, "duration": float(dur),
            "waiting_seconds_mean": float(F(r.choice([1, 2, 3, 5, 8, 13, 40]), tps)) * r.choice([1, 1, 2.5]),
            "num_pipelines": r.choice([1, 2, 4]), "num_operators": r.choice([1, 3, 5]), "num_segs": 1,
            "cpu_io_ratio": r.choice([0, 0.5, 1]), "random_seed": r.randint(0, 10 ** 6),
            "interactive_prob": i, "query_prob": q, "batch_prob": b}


def _compare_roundtrip(produced, replayed, tps, max_ticks):
    if True:
        known = None
        for j, pr in enumerate(produced):
            if j >= len(replayed):
                if pr[0] == max_ticks - 1:
                    known = known or Violation("C13.roundtrip_tick", {
                        "pipeline_index": j, "produced_tick": pr[0], "replayed_tick": "never (run ended)", "tps": tps,
                        "late_by": 1, "float_quotient_exceeds_tick": True}, pr[0])
                    continue
                raise Violation("C13.roundtrip_missing", {"pipeline_index": j, "produced_tick": pr[0], "tps": tps,
                                                          "produced": len(produced), "replayed": len(replayed)}, pr[0])
            rp = replayed[j]
            if rp[1:] != pr[1:]:
                raise Violation("C13.roundtrip_pipeline", {"pipeline_index": j, "produced": list(pr), "replayed": list(rp)}, pr[0])
            if rp[0] != pr[0]:
                arrival = repr(pr[0] * (1.0 / tps))
                if rp[0] == pr[0] + 1 and float_quotient_exceeds(arrival, tps, pr[0]):
                    known = known or Violation("C13.roundtrip_tick", {
                        "pipeline_index": j, "produced_tick": pr[0], "replayed_tick": rp[0], "tps": tps,
                        "arrival_written": arrival, "late_by": 1, "float_quotient_exceeds_tick": True}, pr[0])
                    continue
                raise Violation("C13.roundtrip_tick", {"pipeline_index": j, "produced_tick": pr[0], "replayed_tick": rp[0],
                                                       "tps": tps, "late_by": rp[0] - pr[0], "float_quotient_exceeds_tick": False}, pr[0])
        if len(replayed) > len(produced):
            raise Violation("C13.roundtrip_extra", {"produced": len(produced), "replayed": len(replayed)}, None)
        if known is not None:
            raise known


_cli_rec = {"arr": None}


def ensure_cli_recorder():
    """a do-nothing scheduler registered through the public decorators; it records what arrives in which tick"""
    import_repo()
    from eudoxia.scheduler.decorators import register_scheduler, register_scheduler_init, SCHEDULING_ALGOS
    if "verifrec" in SCHEDULING_ALGOS:
        return

    @register_scheduler_init(key="verifrec")
    def rinit(s):
        s.vt = -1
        if _cli_rec.get("sims") is not None:
            # one list per simulation, with the tick rate it was configured with
            _cli_rec["arr"] = []
            _cli_rec["sims"].append((s.params.get("ticks_per_second"), _cli_rec["arr"]))

    @register_scheduler(key="verifrec")
    def rstep(s, results, pipelines):
        s.vt += 1
        if _cli_rec["arr"] is not None:
            for p in pipelines:
                _cli_rec["arr"].append((s.vt, p.priority.name, len(p.values)))
        return [], []


def run_sens(scn):
    """`tools sensitivity` replays one trace nine-fold (snapped, jittered, unchanged; at every power of ten up to the
    configured tick rate).  Every one of those replays is a trace replay: each pipeline once, in the first tick at or
    after its (snapped / jittered) arrival at THAT replay's tick rate."""
    import_repo()
    import contextlib
    import os
    import shutil
    import tempfile
    from eudoxia.tools import sensitivity_command
    ensure_cli_recorder()
    out = {"violation": None, "discard": None, "faults": {}, "probes": {}, "ticks": 0, "nontrivial": True}
    ctps = scn["tps"]
    arrivals = scn["arrivals"]
    d = tempfile.mkdtemp(prefix="verif_c13s_")
    try:
        pf, tf, od = os.path.join(d, "params.toml"), os.path.join(d, "trace.csv"), os.path.join(d, "out")
        with open(pf, "w") as f:
            f.write('scheduler_algo = "verifrec"\nticks_per_second = %d\nduration = %r\nnum_pools = 1\n' % (ctps, scn["duration"]))
        rows = []
        for j, a in enumerate(arrivals):
            rows += simple_rows("p%d" % (j + 1), a, 1, PRIOS[j % 3])
        with open(tf, "w") as f:
            f.write(rows_to_text(rows))
        sink = io.StringIO()
        _cli_rec["sims"] = sims = []
        try:
            with contextlib.redirect_stdout(sink), contextlib.redirect_stderr(sink):
                sensitivity_command(pf, tf, od, jitter_seed=scn.get("jitter_seed"))
        except (Exception, SystemExit) as e:  # noqa: BLE001
            raise Violation("C13.raises", {"exc": repr(e)[:200], "tps": ctps, "where": "tools sensitivity"})
        finally:
            _cli_rec["sims"] = None
            _cli_rec["arr"] = None
        rates = []
        pw = 1
        while pw <= ctps:
            rates.append(pw)
            pw *= 10
        want = [(m, t) for t in rates for m in ("snap", "jitter", "tick")]
        if [t for _, t in want] != [t for t, _ in sims]:
            raise Violation("C13.sens.simulations", {"expected": [t for _, t in want], "ran_at": [t for t, _ in sims]})
        for (mut, tps), (_, arr) in zip(want, sims):
            nticks = int(scn["duration"] * tps)
            out["ticks"] += nticks
            got = {}
            for (t, prio, nops) in arr:
                got.setdefault(prio, []).append(t)
            seen = sorted(t for ts in got.values() for t in ts)
            inside = 0
            for j, a in enumerate(arrivals):
                x = frac(a) * tps
                if mut == "tick":
                    acc, _ = expected_tick(a, tps)
                    lo, hi = min(acc), max(acc) + 1          # (+1: known finding D9 on grid points)
                elif mut == "snap":
                    k = x.numerator // x.denominator
                    lo, hi = (k - 1 if near(x, round(x)) else k), k + 1
                else:
                    lo, hi = math.ceil(x) - (1 if near(x, round(x)) else 0), math.ceil(x + 1) + 1
                if lo >= nticks:
                    continue
                if hi >= nticks:
                    # may fall beyond the end of this replay: delivery is optional
                    hit = next((t for t in seen if lo <= t <= hi), None)
                    if hit is not None:
                        seen.remove(hit)
                    continue
                inside += 1
                if not any(lo <= t <= hi for t in seen):
                    raise Violation("C13.sens.tick", {"replay": mut, "replay_ticks_per_second": tps, "configured": ctps, "arrival": a,
                                                      "expected_between": [int(lo), int(hi)],
                                                      "delivered_ticks": seen[:12]})
                seen.remove(next(t for t in seen if lo <= t <= hi))
            if seen:
                # something was delivered in a tick no arrival accounts for (early, late or twice)
                raise Violation("C13.sens.tick", {"replay": mut, "replay_ticks_per_second": tps, "configured": ctps,
                                                  "unaccounted_delivery_ticks": seen[:12], "arrivals": arrivals[:12]})
        out["probes"] = {"sensitivity_replays": len(sims)}
    except Violation as v:
        out["violation"] = v.to_json()
    finally:
        shutil.rmtree(d, ignore_errors=True)
    out["sim_s"] = scn["duration"] * 9
    out["sig"] = digest(["sens", ctps, arrivals])
    return out


def gen_sens(r):
    ctps = r.choice([1, 10, 10, 100, 100, 1000])
    n = r.randint(1, 12)
    dur_ticks = r.randint(30, 200)
    duration = float(F(dur_ticks, min(ctps, 100)))
    arrivals = sorted(fstr(F(r.randint(0, int(duration * 1000)), 1000) + F(r.choice([0, 137, 500, 871]), 10 ** 6)) for _ in range(n))
    arrivals = sorted(arrivals, key=frac)
    return {"kind": "sens", "tps": ctps, "duration": duration, "arrivals": arrivals, "jitter_seed": r.choice([None, 3, 42])}


def run_cli_roundtrip(scn):
    """the statement's last sentence through the command line functions themselves: `run params` against
    `gentrace params trace` + `run params -w trace` (params in a TOML file, trace in a real file)"""
    import_repo()
    import contextlib
    import os
    import shutil
    import tempfile
    from eudoxia.__main__ import run_command, gentrace_command
    ensure_cli_recorder()
    out = {"violation": None, "discard": None, "faults": {}, "probes": {}, "ticks": 0, "nontrivial": True}
    params = dict(scn["params"], scheduler_algo="verifrec")
    tps = params["ticks_per_second"]
    max_ticks = int(params["duration"] * tps)
    d = tempfile.mkdtemp(prefix="verif_c13_")
    try:
        pf, tf = os.path.join(d, "params.toml"), os.path.join(d, "trace.csv")
        with open(pf, "w") as f:
            for k, v in params.items():
                f.write("%s = %s\n" % (k, ('"%s"' % v) if isinstance(v, str) else repr(v)))
        sink = io.StringIO()
        try:
            with contextlib.redirect_stdout(sink), contextlib.redirect_stderr(sink):
                _cli_rec["arr"] = produced = []
                run_command(pf)
                _cli_rec["arr"] = None
                gentrace_command(pf, tf)
                if scn.get("twice"):
                    gentrace_command(pf, tf, force=True)       # writing the trace again replaces it
                _cli_rec["arr"] = replayed = []
                run_command(pf, workload=tf)
        except (Exception, SystemExit) as e:  # noqa: BLE001
            raise Violation("C13.raises", {"exc": repr(e)[:200], "tps": tps, "where": "command line round trip"})
        finally:
            _cli_rec["arr"] = None
        out["ticks"] = 2 * max_ticks
        _compare_roundtrip(produced, replayed, tps, max_ticks)
        out["probes"] = {"cli_roundtrip_pipelines": len(produced)}
    except Violation as v:
        out["violation"] = v.to_json()
    finally:
        shutil.rmtree(d, ignore_errors=True)
    out["sim_s"] = 2 * max_ticks / tps
    out["sig"] = digest(["cli", scn["params"]])
    return out


def run_roundtrip(scn):
    import_repo()
    from eudoxia.workload import WorkloadGenerator
    from eudoxia.workload.csv_io import CSVWorkloadReader, CSVWorkloadWriter, WorkloadTraceGenerator
    out = {"violation": None, "discard": None, "faults": {}, "probes": {}, "ticks": 0, "nontrivial": False}
    params = scn["params"]
    tps = params["ticks_per_second"]
    max_ticks = int(params["duration"] * tps)
    try:
        g1 = WorkloadGenerator(**params)
        produced = []           # (tick, priority, n_ops)
        for t in range(max_ticks):
            for p in g1.run_one_tick():
                produced.append((t, p.priority.name, len(p.values)))
        g2 = WorkloadGenerator(**params)
        f = io.StringIO()
        w = CSVWorkloadWriter(f)
        for row in WorkloadTraceGenerator(g2, tps, params["duration"]).generate_rows():
            w.write_row(row)
        text = f.getvalue()
        wt = CSVWorkloadReader(io.StringIO(text)).get_workload(tps)
        replayed = []
        for t in range(max_ticks):
            for p in wt.run_one_tick():
                replayed.append((t, p.priority.name, len(p.values)))
        out["ticks"] = max_ticks
        _compare_roundtrip(produced, replayed, tps, max_ticks)
        out["probes"] = {"roundtrip_pipelines": len(produced)}
    except Violation as v:
        out["violation"] = v.to_json()
    out["nontrivial"] = True
    out["sim_s"] = 2 * max_ticks / tps
    out["sig"] = digest(scn["params"])
    return out


# ---------------------------------------------------------------------------
# C14: what is written is what is read; malformed files are refused
# ---------------------------------------------------------------------------
NUMS = ["0", "1", "2", "15", "37.5", "0.5", "0.001", "1e-09", "123456789", "1000000000", "3.3", "0.1", "55", "7.25",
        "2.5e-05", "80", "0.30000000000000004"]


def gen_pipes14(r):
    from .exgen import dag_parents
    pipes = []
    t = 0
    for k in range(r.randint(1, 12)):
        if k and r.random() < 0.6:
            t += r.randint(0, 30)
        n = r.randint(1, 6) if r.random() < 0.85 else r.randint(10, 14)      # op10.. sort before op2 as strings
        par = dag_parents(r, n, r.choice(["chain", "fanout", "fanin", "diamond", "multiroot", "random"]))
        if r.random() < 0.4:
            for pl_ in par:
                r.shuffle(pl_)          # parents are declared in any order; the order is part of the row
        ops = []
        for i in range(n):
            mem = r.choice([None, None, "0", "0.0", r.choice(NUMS)])
            ops.append({"par": par[i], "segs": [[r.choice(NUMS), r.choice(LAWS), mem, r.choice(NUMS)]]})
            if r.random() < 0.2:
                ops[-1]["law_as_callable"] = True
        pipes.append({"prio": r.choice(PRIOS), "at": t, "ops": ops})
        if r.random() < 0.3:
            # the writer numbers pipelines itself; whatever ids the workload used (the same job submitted twice,
            # ids with commas or quotes) must not matter
            pipes[-1]["id"] = r.choice(["nightly-etl", "nightly-etl", "job,7", 'say "hi"', "p1", "p2", ""])
    return pipes


def _structure_of_pipeline(p):
    from eudoxia.workload.pipeline import Segment
    ops = list(p.values.node_lookup.values())
    idx = {id(o): i for i, o in enumerate(ops)}
    out = []
    for o in ops:
        seg = o.get_segments()[0]
        law = [n for n, f in Segment.SCALING_FUNCS.items() if f == seg.scaling_func]
        out.append((sorted(idx[id(q)] for q in o.parents), float(seg.baseline_cpu_seconds), law[0] if law else None,
                    None if seg.memory_gb is None else float(seg.memory_gb), float(seg.storage_read_gb), len(o.get_segments())))
    return (p.priority.name, out)


def _structure_of_scn(pd):
    return (pd["prio"], [(sorted(o["par"]), float(o["segs"][0][0]), o["segs"][0][1],
                          None if o["segs"][0][2] is None else float(o["segs"][0][2]), float(o["segs"][0][3]), 1)
                         for o in pd["ops"]])


def run_w2r(scn):
    """scenario pipelines -> real Pipeline objects -> WorkloadTraceGenerator -> CSVWorkloadWriter -> file -> reader"""
    import_repo()
    from eudoxia.workload.csv_io import CSVWorkloadReader, CSVWorkloadWriter, WorkloadTraceGenerator
    from . import sysdrv
    out = {"violation": None, "discard": None, "faults": {}, "probes": {}, "ticks": 0, "nontrivial": True}
    tps = scn["tps"]
    pipes = scn["pipes"]
    nticks = max(p["at"] for p in pipes) + 1
    try:
        rec = sysdrv.Rec({"cfg": {"algo": "none"}})
        wl = sysdrv.make_scn_workload({"pipes": pipes}, rec)
        f = io.StringIO()
        w = CSVWorkloadWriter(f)
        for row in WorkloadTraceGenerator(wl, tps, nticks / tps + 0.5 / tps).generate_rows():
            w.write_row(row)
        text = f.getvalue()
        got = list(CSVWorkloadReader(io.StringIO(text)).batch_by_pipeline())
        if len(got) != len(pipes):
            raise Violation("C14.count", {"written": len(pipes), "read": len(got)})
        for j, (pd, pa) in enumerate(zip(pipes, got)):
            want = _structure_of_scn(pd)
            have = _structure_of_pipeline(pa.pipeline)
            if want != have:
                k = next((i for i, (a, b) in enumerate(zip(want[1], have[1])) if a != b), None)
                raise Violation("C14.pipeline_differs", {
                    "pipeline_index": j, "operator": k, "written": want[0] if k is None else list(want[1][k]),
                    "read": have[0] if k is None else list(have[1][k]),
                    "fields": "parents, cpu_seconds, scaling, memory_gb, storage_read_gb, segments"})
            if pa.arrival_seconds != pd["at"] * (1.0 / tps):
                raise Violation("C14.arrival", {"pipeline_index": j, "written": pd["at"] * (1.0 / tps), "read": pa.arrival_seconds})
        out["probes"] = {"mem_zero": sum(1 for p in pipes for o in p["ops"] if o["segs"][0][2] in ("0", "0.0")),
                         "mem_unset": sum(1 for p in pipes for o in p["ops"] if o["segs"][0][2] is None),
                         "multi_parent": sum(1 for p in pipes for o in p["ops"] if len(o["par"]) > 1),
                         "same_arrival": sum(1 for a, b in zip(pipes, pipes[1:]) if a["at"] == b["at"])}
        scn["_text"] = text
    except Violation as v:
        out["violation"] = v.to_json()
    except Discard:
        raise
    except Exception as e:  # noqa: BLE001 - a valid workload that cannot be written / read back
        out["violation"] = Violation("C14.raises.write_read", {"exc": repr(e)[:300]}).to_json()
    out["sig"] = digest([tps, pipes])
    return out


def scn_to_rows(pipes, tps, opname=lambda i: "op%d" % (i + 1)):
    rows = []
    for j, pd in enumerate(pipes):
        for i, o in enumerate(pd["ops"]):
            seg = o["segs"][0]
            rows.append(["p%d" % (j + 1), repr(pd["at"] * (1.0 / tps)) if i == 0 else "", pd["prio"] if i == 0 else "",
                         opname(i), ";".join(opname(q) for q in o["par"]), repr(float(seg[0])), seg[1],
                         "" if seg[2] is None else repr(float(seg[2])), repr(float(seg[3]))])
    return rows


def run_r2w(scn):
    """a file in the writer's format -> reader -> WorkloadTrace -> WorkloadTraceGenerator -> writer"""
    import_repo()
    import csv
    from eudoxia.workload.csv_io import CSVWorkloadReader, CSVWorkloadWriter, WorkloadTraceGenerator
    out = {"violation": None, "discard": None, "faults": {}, "probes": {}, "ticks": 0, "nontrivial": True}
    tps = scn["tps"]
    pipes = scn["pipes"]
    nticks = max(p["at"] for p in pipes) + 3
    try:
        text = rows_to_text(scn_to_rows(pipes, tps), scn.get("col_order"))
        wt = CSVWorkloadReader(io.StringIO(text)).get_workload(tps)
        f = io.StringIO()
        w = CSVWorkloadWriter(f)
        for row in WorkloadTraceGenerator(wt, tps, nticks / tps + 0.5 / tps).generate_rows():
            w.write_row(row)
        a = list(csv.DictReader(io.StringIO(text)))
        b = list(csv.DictReader(io.StringIO(f.getvalue())))
        if len(a) != len(b):
            raise Violation("C14.rewrite_rows", {"rows_in": len(a), "rows_out": len(b)})
        for k, (ra, rb) in enumerate(zip(a, b)):
            for col in HEADER.split(","):
                if col == "arrival_seconds":
                    if bool(ra[col]) != bool(rb[col]):
                        raise Violation("C14.rewrite_cell", {"row": k, "column": col, "in": ra[col], "out": rb[col]})
                    continue
                va, vb = ra[col], rb[col]
                if col in ("baseline_cpu_seconds", "memory_gb", "storage_read_gb") and va != "" and vb != "":
                    va, vb = float(va), float(vb)
                if va != vb:
                    raise Violation("C14.rewrite_cell", {"row": k, "column": col, "in": ra[col], "out": rb[col]})
    except Violation as v:
        out["violation"] = v.to_json()
    except Discard:
        raise
    except Exception as e:  # noqa: BLE001 - a valid workload that cannot be written / read back
        out["violation"] = Violation("C14.raises.read_write", {"exc": repr(e)[:300]}).to_json()
    out["sig"] = digest([tps, pipes])
    return out


CORRUPTIONS = ("blank_priority_first", "blank_arrival_first", "priority_on_later", "arrival_on_later",
               "unknown_priority", "unknown_scaling", "undefined_parent", "parent_defined_later",
               "first_row_repeated", "priority_and_arrival_on_later")


def run_corrupt(scn):
    """one format violation injected into a valid file: the reader must raise
    before the damaged pipeline is delivered, never load it differently"""
    import_repo()
    from eudoxia.workload.csv_io import CSVWorkloadReader
    out = {"violation": None, "discard": None, "faults": {}, "probes": {}, "ticks": 0, "nontrivial": True}
    tps = scn["tps"]
    pipes = scn["pipes"]
    rows = scn_to_rows(pipes, tps)
    kind = scn["corruption"]
    j = scn["target"]              # pipeline index
    pid = "p%d" % (j + 1)
    mine = [k for k, r_ in enumerate(rows) if r_[0] == pid]
    later = mine[1 + scn.get("row", 0) % max(1, len(mine) - 1)] if len(mine) > 1 else None
    first = mine[0]
    ok = True
    if kind == "blank_priority_first":
        rows[first][2] = ""
    elif kind == "blank_arrival_first":
        rows[first][1] = ""
    elif kind == "unknown_priority":
        rows[first][2] = scn.get("junk", "URGENT")
    elif kind == "unknown_scaling":
        rows[mine[scn.get("row", 0) % len(mine)]][6] = scn.get("junk", "cubic")
    elif kind == "undefined_parent":
        rows[mine[scn.get("row", 0) % len(mine)]][4] = "op99"
    elif kind == "first_row_repeated":
        # the pipeline's first line once more among its rows: a later row that carries priority and arrival
        at = first + 1 if scn.get("row", 0) % 2 == 0 else mine[-1] + 1
        rows.insert(at, list(rows[first]))
    elif later is None:
        ok = False
    elif kind == "priority_and_arrival_on_later":
        rows[later][2] = pipes[j]["prio"]
        rows[later][1] = rows[first][1]
    elif kind == "priority_on_later":
        rows[later][2] = pipes[j]["prio"]
    elif kind == "arrival_on_later":
        rows[later][1] = rows[first][1]
    elif kind == "parent_defined_later":
        # refer to an operator that is only defined on a later row
        k0 = mine[0]
        rows[k0][4] = rows[mine[-1]][3]
    if not ok:
        out["discard"] = "corruption needs a pipeline with several rows"
        out["sig"] = digest([kind, j])
        return out
    text = rows_to_text(rows)
    out["faults"] = {kind: 1}
    try:
        for level in ("reader", "trace"):
            delivered = []
            raised = None
            try:
                if level == "reader":
                    for pa in CSVWorkloadReader(io.StringIO(text)).batch_by_pipeline():
                        delivered.append(pa.pipeline.pipeline_id)
                else:
                    wt = CSVWorkloadReader(io.StringIO(text)).get_workload(tps)
                    for _ in range(max(p["at"] for p in pipes) + 3):
                        for p in wt.run_one_tick():
                            delivered.append(p.pipeline_id)
            except Exception as e:  # noqa: BLE001 - any error is a refusal
                raised = e
            if pid in delivered:
                raise Violation("C14.malformed_loaded", {"corruption": kind, "pipeline": pid, "level": level,
                                                         "raised": repr(raised)[:100] if raised else None})
            if raised is None:
                raise Violation("C14.malformed_not_refused", {"corruption": kind, "pipeline": pid, "level": level,
                                                              "delivered": delivered})
    except Violation as v:
        out["violation"] = v.to_json()
    out["sig"] = digest([kind, j, tps, pipes])
    return out


def run_behav(scn):
    """every field of the statement changes simulated behaviour: the same workload simulated directly and through a
    trace file written by the real writer must give identical tick-by-tick logs and statistics"""
    import_repo()
    from eudoxia.workload.csv_io import CSVWorkloadReader, CSVWorkloadWriter, WorkloadTraceGenerator
    from . import sysdrv
    from .repro import stats_canon, first_difference
    out = {"violation": None, "discard": None, "faults": {}, "probes": {}, "ticks": 0, "nontrivial": False}
    tps = scn["cfg"]["tps"]
    pipes = scn["pipes"]
    nticks = max(p["at"] for p in pipes) + 1
    o1, rec1, st1 = sysdrv.run(dict(scn, kind="sys"), oracles=(), keep_rounds=False)
    rec0 = sysdrv.Rec({"cfg": {"algo": "none"}})
    wl = sysdrv.make_scn_workload({"pipes": pipes}, rec0)
    f = io.StringIO()
    w = CSVWorkloadWriter(f)
    for row in WorkloadTraceGenerator(wl, tps, nticks / tps + 0.5 / tps).generate_rows():
        w.write_row(row)
    text = f.getvalue()

    def factory(rec):
        return sysdrv.wrap_workload(CSVWorkloadReader(io.StringIO(text)).get_workload(tps), rec)
    o2, rec2, st2 = sysdrv.run(dict(scn, kind="sys"), oracles=(), workload_factory=factory, keep_rounds=False)
    out.update({k: o1[k] for k in ("ticks", "sig", "nontrivial", "probes", "sim_s")})
    if o1["violation"] or o2["violation"]:
        if (o1["violation"] or {}).get("rule") != (o2["violation"] or {}).get("rule"):
            out["violation"] = Violation("C14.behaviour_differs", {"direct": o1["violation"], "through_file": o2["violation"]}).to_json()
        return out
    if digest(rec1.canon) != digest(rec2.canon):
        out["violation"] = Violation("C14.behaviour_differs", {"first_difference": first_difference(rec1, rec2)}).to_json()
    elif stats_canon(st1) != stats_canon(st2):
        out["violation"] = Violation("C14.behaviour_differs", {"direct": stats_canon(st1), "through_file": stats_canon(st2)}).to_json()
    return out


def gen_behav(r, tier):
    from . import sysgen
    scn = sysgen.gen(r, None, "C14", tier)
    cfg = scn["cfg"]
    cfg["tps"] = r.choice([1, 2, 4, 8, 16])          # arrivals k/tps are exact: the tick mapping (C13) is out of the picture
    nt = r.randint(20, 150)
    cfg["duration"] = nt / cfg["tps"]
    if cfg["algo"] == "priority-pool":
        cfg["multi"] = True
    pipes = [p for p in sysgen.gen_pipes(r, nt, cfg["tps"], F(str(cfg["ram"])), "C14") if p["at"] < nt][:25]
    for p in pipes:
        for o in p["ops"]:
            o["segs"] = o["segs"][:1]                 # the trace format has one segment per operator
    if not pipes:
        pipes = [{"prio": "BATCH_PIPELINE", "at": 0, "id": "p1", "ops": [{"par": [], "segs": [["0.5", "const", None, "4"]]}]}]
    scn["pipes"] = pipes
    scn["kind"] = "behav"
    return scn
