"""C07: reproducibility and workload independence (DESIGN 4/C07)."""
import json
import math
import os
import subprocess
import sys

from .common import Violation, VERIF_DIR, digest, sub_rng, import_repo
from . import sysdrv, sysgen


def stats_canon(stats):
    def fix(x):
        if isinstance(x, float) and math.isnan(x):
            return "nan"
        if isinstance(x, dict):
            return {str(k): fix(v) for k, v in x.items()}
        if hasattr(x, "item"):
            return fix(x.item())
        return x
    d = fix(stats.to_dict())
    # derived figures a user reads off the same object (exact: repr of the float)
    for name, kw in (("adjusted_latency", {}), ("adjusted_latency_raw", {"divide_by_completion_rate": False})):
        try:
            d[name] = repr(stats.adjusted_latency(**kw))
        except Exception as e:  # noqa: BLE001
            d[name] = "raised " + type(e).__name__
    return d


def run_digest(scn, ids, internal=False):
    s = dict(scn)
    s["ids"] = ids
    out, rec, stats = sysdrv.run(s, oracles=(), workload_factory="internal" if internal else None, keep_rounds=False)
    if out["violation"]:
        # a crash is C08's business; for C07 only the comparison matters
        return ("crash:" + out["violation"]["rule"] + ":" + str(out["violation"]["detail"].get("msg", ""))[:60], None, out, rec)
    return (digest(rec.canon), stats_canon(stats), out, rec)


FILLER = {"kind": "sys", "cfg": {"algo": "naive", "tps": 5, "duration": 6.0, "pools": 1, "cpus": 4, "ram": 16,
                                 "multi": True, "over": False},
          "pipes": [{"prio": "BATCH_PIPELINE", "at": 0, "ops": [{"par": [], "segs": [["0.5", "const", None, "4"]]},
                                                               {"par": [0], "segs": [["0.2", "const", "1", "0"]]}]}]}


def first_difference(rec_a, rec_b):
    for k, (a, b) in enumerate(zip(rec_a.canon, rec_b.canon)):
        if json.dumps(a, default=str) != json.dumps(b, default=str):
            return {"entry": k, "kind": a[0], "a": json.dumps(a, default=str)[:300], "b": json.dumps(b, default=str)[:300]}
    return {"lengths": [len(rec_a.canon), len(rec_b.canon)]}


def run_repro(scn):
    """(a) fresh ids  (b) same process after other simulations, other uuid stream and container numbers"""
    internal = "pipes" not in scn
    d1, s1, out, rec1 = run_digest(scn, {"uuid_seed": scn["u1"], "container_offset": 1}, internal)
    for k in range(scn.get("fillers", 1)):
        f = json.loads(json.dumps(FILLER))
        f["cfg"]["algo"] = ["naive", "priority", "overbook"][k % 3]
        f["cfg"]["over"] = f["cfg"]["algo"] == "overbook"
        run_digest(f, {"uuid_seed": scn["u1"] + 17 + k, "container_offset": 500 + k})
    if scn.get("fillers", 1):
        # an earlier simulation configured the documented way: take the defaults, change what differs, run
        import eudoxia.simulator as simmod
        p = simmod.get_param_defaults()
        p.update({"duration": 2.0, "ticks_per_second": 5, "scheduler_algo": "naive", "num_pools": 1, "num_pipelines": 9,
                  "num_operators": 2, "waiting_seconds_mean": 0.4, "random_seed": 777, "cpu_io_ratio": 0.9,
                  "cpus_per_pool": 3, "ram_gb_per_pool": 7})
        simmod.run_simulator(p)
    scn2 = scn
    if scn.get("share_segments") and not internal:
        # the caller keeps Segment prototypes: an earlier simulation ran the very same Segment objects at another tick
        # rate and on other pool sizes; the second run of the pair uses them again
        sysdrv.SEGMENT_CACHE.clear()
        h = json.loads(json.dumps(scn))
        h["cfg"]["tps"] = scn["share_segments"]["tps"]
        h["cfg"]["cpus"] = scn["share_segments"]["cpus"]
        h["cfg"]["duration"] = min(h["cfg"]["duration"], 150.0 / h["cfg"]["tps"])
        h["share_segments"] = True
        run_digest(h, {"uuid_seed": scn["u1"] + 99, "container_offset": 900})
        scn2 = dict(scn, share_segments=True)
    d2, s2, out2, rec2 = run_digest(scn2, {"uuid_seed": scn["u2"], "container_offset": scn.get("off2", 7000),
                                           "uuid_mode": scn.get("uuid_mode")}, internal)
    sysdrv.SEGMENT_CACHE.clear()
    res = {"violation": None, "discard": None, "faults": {"uuid_stream_changed": 1, "container_numbers_shifted": 1,
                                                           "preceding_simulations": scn.get("fillers", 1)},
           "probes": dict(out["probes"]), "ticks": out["ticks"] * 2, "sim_s": out["sim_s"] * 2, "nontrivial": True, "sig": d1, "digest": d1,
           "stats": s1}
    if d1 != d2:
        res["violation"] = Violation("C07.log_differs", {"algo": scn["cfg"]["algo"], "first_difference": first_difference(rec1, rec2)}).to_json()
    elif s1 != s2:
        res["violation"] = Violation("C07.stats_differ", {"algo": scn["cfg"]["algo"], "a": s1, "b": s2}).to_json()
    return res


def arrivals_of(rec):
    return [e for e in rec.canon if e[0] == "new"]


def run_indep(scn):
    """the generated workload depends only on workload parameters, tick rate and seed"""
    a = dict(scn, cfg=dict(scn["cfg"], **scn["exec_a"]))
    b = dict(scn, cfg=dict(scn["cfg"], **scn["exec_b"]))
    _, _, outa, ra = run_digest(a, {"uuid_seed": 1, "container_offset": 1}, True)
    _, _, outb, rb = run_digest(b, {"uuid_seed": 2, "container_offset": 50}, True)
    res = {"violation": None, "discard": None, "faults": {"executor_settings_changed": 1}, "probes": {},
           "ticks": outa["ticks"] + outb["ticks"], "sim_s": outa["sim_s"] + outb["sim_s"], "nontrivial": True, "sig": digest(arrivals_of(ra))}
    na = min(len(ra.emitted), len(rb.emitted))
    xa, xb = arrivals_of(ra)[:na], arrivals_of(rb)[:na]
    if json.dumps(xa, default=str) != json.dumps(xb, default=str):
        k = next(i for i, (p, q) in enumerate(zip(xa, xb)) if json.dumps(p, default=str) != json.dumps(q, default=str))
        res["violation"] = Violation("C07.workload_depends_on_settings", {
            "tick": k, "settings_a": scn["exec_a"], "settings_b": scn["exec_b"],
            "a": json.dumps(xa[k], default=str)[:200], "b": json.dumps(xb[k], default=str)[:200]}).to_json()
        return res
    other = scn.get("other_seed", scn["cfg"]["random_seed"] + 1 + scn.get("seed_step", 0))
    if other == "default":
        from eudoxia.simulator import get_param_defaults  # noqa: WPS433 - the package is importable once a run was made
        other = get_param_defaults()["random_seed"]
    c = dict(scn, cfg=dict(scn["cfg"], random_seed=other, **scn["exec_a"]))
    _, _, outc, rc = run_digest(c, {"uuid_seed": 3, "container_offset": 1}, True)
    n_pipes = len(ra.pipes)
    cfg = scn["cfg"]
    # only workloads in which the seed has something to decide: at least two
    # classes with probability >= 0.1 and >= 200 pipelines (two seeds then agree
    # on every priority with probability < 0.82^200 ~ 1e-17)
    entropy = sum(1 for k in ("interactive_prob", "query_prob", "batch_prob") if cfg[k] >= 0.1) >= 2
    if entropy and n_pipes >= 200 and len(rc.pipes) >= 200 and outa["ticks"] == outc["ticks"]:
        if json.dumps(arrivals_of(ra), default=str) == json.dumps(arrivals_of(rc), default=str):
            res["violation"] = Violation("C07.seed_ignored", {"seeds": [scn["cfg"]["random_seed"], c["cfg"]["random_seed"]],
                                                              "pipelines": n_pipes}).to_json()
        res["probes"]["seed_pairs_compared"] = 1
    return res


def gen_repro(r, tier):
    k = r.random()
    if k < 0.35:
        scn = sysgen.gen_generated(r, None, tier)
    elif k < 0.65:
        # pre-emption load: several write-outs finishing in one tick, ties, retries - where ordering by
        # identifier or hash would show
        scn = sysgen.gen_preempt(r, tier, offgrid=False)
    else:
        scn = sysgen.gen(r, None, "C07", tier)
    if scn["cfg"]["algo"] == "priority-pool":
        scn["cfg"]["multi"] = True
    if "pipes" not in scn and scn["cfg"]["waiting_seconds_mean"] * scn["cfg"]["tps"] < 1:
        # a batch in every tick: thousands of pipelines, and every scheduler's backlog grows - keep those runs short (a
        # pair of them plus fillers once overran the per-run alarm on a heavily loaded machine)
        scn["cfg"]["duration"] = min(scn["cfg"]["duration"], 150.0 / scn["cfg"]["tps"])
    if "pipes" not in scn:
        # leave some workload parameters to the package defaults, as a partial params file would
        for key in r.sample(["num_pipelines", "num_operators", "cpu_io_ratio", "random_seed"], r.randint(0, 2)):
            scn["cfg"].pop(key, None)
    scn["u1"] = r.randint(1, 10 ** 9)
    scn["u2"] = r.randint(1, 10 ** 9)
    scn["off2"] = r.choice([2, 10, 99, 1000, 123456])
    scn["fillers"] = r.randint(0, 3)
    scn["kind"] = "repro"
    scn["uuid_mode"] = r.choice([None, None, "shared_prefix", "shared_suffix"])
    if "pipes" in scn and r.random() < 0.25:
        scn["share_segments"] = {"tps": r.choice([t for t in (1, 2, 5, 10, 20, 100) if t != scn["cfg"]["tps"]]),
                                 "cpus": scn["cfg"]["cpus"]}
    return scn


def gen_indep(r, tier):
    scn = sysgen.gen_generated(r, "naive", tier)
    scn["kind"] = "indep"
    def ex():
        algo = r.choice(["naive", "priority", "priority-pool", "overbook"])
        return {"algo": algo, "pools": 2 if algo == "priority-pool" else r.choice([1, 2, 3, 5, 8]),
                "cpus": r.choice([1, 2, 8, 64]), "ram": r.choice([8, 64, 256, 40.5]),
                "multi": True if algo == "priority-pool" else r.random() < 0.5, "over": algo == "overbook" or r.random() < 0.2}
    scn["exec_a"], scn["exec_b"] = ex(), ex()
    scn["seed_step"] = r.randint(0, 3)
    if r.random() < 0.15:
        # a seed that is falsy / at a width boundary against the package default and its neighbours, on a workload in
        # which the seed decides a lot (so that the pair is always compared)
        scn["cfg"]["random_seed"] = r.choice([0, 0, 0, 2 ** 32, 2 ** 32 - 1, 2 ** 63])
        scn["other_seed"] = r.choice(["default", "default", "default", 1, scn["cfg"]["random_seed"] + 2 ** 32, 2 ** 64])
        i, q, b = r.choice([(0.3, 0.1, 0.6), (0.33, 0.33, 0.34), (0.25, 0.25, 0.5)])
        scn["cfg"].update(tps=10, duration=float(r.randint(8, 15)), waiting_seconds_mean=0.01, num_pipelines=r.choice([4, 7]),
                          interactive_prob=i, query_prob=q, batch_prob=b)
    return scn


# -- fresh interpreter, other PYTHONHASHSEED -----------------------------------
def digests_for(seed, n, tier="quick"):
    out = []
    for i in range(n):
        r = sub_rng(seed, "C07", "repro", i)
        if i % 3 == 2:
            # all three classes arrive and complete, at a tick rate that makes latencies generic decimals: any figure
            # accumulated in hash order differs in its last bits
            scn = sysgen.gen_generated(r, r.choice(["naive", "priority", "priority", "overbook"]), tier)
            ti, tq, tb = r.choice([(0.3, 0.1, 0.6), (0.33, 0.33, 0.34), (0.25, 0.25, 0.5), (0.15, 0.35, 0.5)])
            scn["cfg"].update(tps=r.choice([10, 100, 3, 7]), num_pipelines=4,
                              num_operators=r.choice([1, 2]), cpus=64, ram=1000, pools=r.choice([2, 3]),
                              interactive_prob=ti, query_prob=tq, batch_prob=tb, cpu_io_ratio=0.5)
            scn["cfg"]["duration"] = float(r.randint(300, 1200)) / scn["cfg"]["tps"]
            scn["cfg"]["waiting_seconds_mean"] = r.choice([3, 7, 11]) / scn["cfg"]["tps"]
            scn["cfg"]["over"] = scn["cfg"]["algo"] == "overbook"
            scn["u2"] = r.randint(1, 10 ** 9)
        elif i % 2:
            # retried and fresh operators of one pipeline waiting together: any hash-ordered choice among them shows
            scn = sysgen.gen(r, r.choice(["priority", "priority", "overbook", "naive"]), "C17", tier)
            scn["cfg"]["multi"] = False
            scn["cfg"]["over"] = scn["cfg"]["algo"] == "overbook"
            scn["u2"] = r.randint(1, 10 ** 9)
        else:
            scn = gen_repro(r, tier)
        d, s, o, rec = run_digest(scn, {"uuid_seed": scn["u2"] + 5, "container_offset": 3}, "pipes" not in scn)
        out.append([d, digest(s)])
    return out


def fresh_interpreter_start(seed, n, hashseed):
    env = dict(os.environ)
    env["PYTHONHASHSEED"] = str(hashseed)
    return subprocess.Popen([os.path.join(VERIF_DIR, "check"), "selftest", "c07digest", str(seed), str(n)],
                            stdout=subprocess.PIPE, stderr=subprocess.PIPE, text=True, env=env, cwd=VERIF_DIR)


def fresh_interpreter_collect(p):
    so, se = p.communicate(timeout=1800)
    line = [l for l in so.splitlines() if l.startswith("DIGESTS ")]
    if p.returncode != 0 or not line:
        raise RuntimeError("fresh interpreter failed: " + (so + se)[-500:])
    return json.loads(line[0][8:])
