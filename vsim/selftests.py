"""Self-tests of the machinery: determinism of the harness, replay fidelity."""
import json
import os
import subprocess
import sys

from .common import VERIF_DIR, jload, sub_rng

PROPS = ["C%02d" % i for i in range(1, 21)]


def batch_digest(prop, seed, scale, workers, hashseed):
    env = dict(os.environ, VERIF_SEED=str(seed), VERIF_SCALE=str(scale), VERIF_WORKERS=str(workers),
               PYTHONHASHSEED=str(hashseed))
    p = subprocess.run([os.path.join(VERIF_DIR, "check"), prop, "quick"], capture_output=True, text=True, env=env,
                       cwd=VERIF_DIR, timeout=1800)
    ev = jload(os.path.join(VERIF_DIR, "evidence", prop + ".json"))
    return p.returncode, ev["coverage"]["batch_digest"], ev["coverage"]["evaluations"]


def determinism(argv):
    """Every check, same VERIF_SEED: (16 workers, hash seed 0) vs (3 workers, hash seed 12345) vs (1 worker, 777)
    must execute the identical batch (digest over every run's event signature and verdict)."""
    seeds = [int(x) for x in argv] or [7, 8]
    bad = 0
    total = 0
    for prop in PROPS:
        for seed in seeds:
            a = batch_digest(prop, seed, 0.04, 16, 0)
            b = batch_digest(prop, seed, 0.04, 3, 12345)
            c = batch_digest(prop, seed, 0.04, 1, 777)
            total += a[2]
            ok = a == b == c
            print("%s seed=%d runs=%d %s %s" % (prop, seed, a[2], a[1], "same" if ok else "DIFFERENT %s %s" % (b, c)))
            if not ok:
                bad += 1
    print("DETERMINISM runs_compared=%d batches_differing=%d" % (total, bad))
    # leave evidence files as a full quick run would: caller re-runs the checks afterwards
    return 1 if bad else 0


def replay_fidelity(argv):
    """generate-mode EX runs re-executed from their recorded script must give the same event signature"""
    from . import exgen, exdrv
    n = int(argv[0]) if argv else 400
    bad = 0
    for focus in ("C01", "C02", "C03", "C04", "C05", "C09", "C10", "C11"):
        for i in range(n):
            r = sub_rng(99, focus, i)
            scn = exgen.gen(r, focus)
            o1 = exdrv.run(scn, r)
            s2 = {k: v for k, v in scn.items() if k != "knobs"}
            o2 = exdrv.run(json.loads(json.dumps(s2)), None)
            if (o1["sig"], o1["violation"], o1["discard"], o1["ended_by"]) != (o2["sig"], o2["violation"], o2["discard"], o2["ended_by"]) \
                    or o2["skipped"]:
                bad += 1
                if bad <= 5:
                    print("MISMATCH", focus, i, o1["ended_by"], o2["ended_by"], o2["skipped"], o1["discard"], o2["discard"])
    print("REPLAY-FIDELITY scenarios=%d mismatches=%d" % (8 * n, bad))
    return 1 if bad else 0


def main(argv):
    if argv[0] == "determinism":
        return determinism(argv[1:])
    if argv[0] == "replay-fidelity":
        return replay_fidelity(argv[1:])
    print("unknown selftest", argv[0])
    return 2
