"""Swarm generator for SYS scenarios: valid configurations and well-formed
workloads (the C08 validity domain is the false-alarm boundary, DESIGN 4/C08)."""
from fractions import Fraction as F

from .exdrv import fstr
from .exgen import dag_parents

LAWS = ("const", "log", "sqrt", "linear3", "linear7", "squared", "exp")
PRIOS = ("QUERY", "INTERACTIVE", "BATCH_PIPELINE")


def gen(r, algo=None, focus=None, tier="quick", offgrid=False):
    if algo is None:
        algo = r.choice(["naive", "priority", "priority-pool", "overbook", "template"])
    tps = r.choice([1, 1, 2, 2, 3, 5, 10, 10, 20, 100, 1000] if r.random() < 0.9 else
                   [7, 16, 250, 10 ** 4, 10 ** 5, 3000, 99999, r.randint(2, 1000), r.randint(1000, 10 ** 5)])
    nticks = r.randint(10, 300) if r.random() < 0.9 else r.randint(1, 12)
    pools = 2 if algo == "priority-pool" else r.choice([1, 1, 2, 2, 3, 4])
    cpus = r.choice([1, 1, 2, 4, 8, 10, 16, 64])
    if r.random() < 0.06:
        # nothing in the package requires whole CPUs per pool; halves only: the priority schedulers hand a pool's
        # leftover to the last container, and the documented log law b / (ln(c) + 1) is undefined below 1/e CPUs
        cpus = r.choice([1.5, 2.5, 12.5, 20.5])
    unit = F(20, tps)
    mode = r.random()
    if mode < 0.55:
        # pool sized in "ticks to fill": scales with the tick rate, includes sub-GB pools
        ram = r.choice([3, 5, 10, 20, 40, 100, 200]) * unit
        if r.random() < 0.4:
            ram += F(r.choice([1, 3, 7]), 10) * unit
    else:
        ram = F(r.choice(["0.25", "0.5", "1", "3.3", "8", "10.3", "16", "64", "256", "1000", "1/3", "100/3", "0.125", "0.375"]))
    multi = r.random() < 0.6
    if focus == "C17":
        # naive hands out whole pools: failures need operators larger than a pool, and the
        # interesting histories need one pipeline running on several pools at once
        pools = r.choice([1, 2, 2, 3, 3, 4])
        multi = r.random() < 0.4
    if algo == "priority-pool" and r.random() < 0.95:
        multi = True      # known finding D3 lives at multi=False; aimed at in ~5 % of runs
    over = True if algo == "overbook" else r.random() < 0.15
    # duration: whole ticks, fractional ticks, or shorter than one tick
    dk = r.random()
    if dk < 0.8:
        duration = float(F(nticks, tps))
    elif dk < 0.95:
        duration = float(F(nticks, tps) + F(r.choice([1, 3, 7]), 10 * tps))
    else:
        duration = float(F(r.choice([1, 5, 9]), 10 * tps))
        nticks = 0
    if r.random() < 0.1:
        multi = int(multi)        # flags given as 0 / 1 (any falsy / truthy value selects the mode)
    cfg = {"algo": algo, "tps": tps, "duration": duration, "pools": pools, "cpus": cpus,
           "ram": float(ram) if ram.denominator != 1 else int(ram), "multi": multi, "over": over}
    if r.random() < 0.05:
        cfg["tps_float"] = True   # ticks_per_second = 10.0 in a parameter file is the same rate
    pipes = gen_pipes(r, nticks, tps, ram, focus, offgrid=offgrid)
    if r.random() < 0.02 and nticks > 0 and dk < 0.8:
        # thousands of idle ticks before anything arrives
        gap = r.choice([1000, 5000, 20000])
        for p_ in pipes:
            p_["at"] += gap
        nticks += gap
        cfg["duration"] = float(F(nticks, tps))
    scn = {"kind": "sys", "cfg": cfg, "pipes": pipes}
    if r.random() < 0.08:
        scn["params_as_file"] = True
    if r.random() < 0.2:
        scn["observe"] = r.randint(0, 10 ** 9)       # a bystander reads public state between workload, scheduler and executor
    if r.random() < 0.15 and nticks > 2:
        scn["decoy_at"] = r.randint(1, max(1, nticks // 2))      # another Executor is constructed while this run is live
    return scn


def gen_pipes(r, nticks, tps, ram, focus=None, max_ops=5, offgrid=False):
    unit = F(20, tps)
    load = r.choice([0.03, 0.1, 0.25, 0.6])
    cap = r.choice([3, 10, 30, 60])
    mix = r.choice([(2, 1, 2), (1, 1, 1), (4, 1, 1), (1, 0, 3), (0, 1, 1), (1, 0, 0), (0, 0, 1), (3, 2, 5)])
    if focus == "C12":
        mix = r.choice([(3, 1, 3), (2, 0, 3), (4, 1, 2), (1, 1, 1)])
    mem_fr = r.choice([[0.01, 0.03, 0.05], [0.03, 0.08, 0.15, 0.3], [0.08, 0.2, 0.45, 0.7], [0.01, 0.1, 0.6, 1.3]])
    dur_kinds = r.choice([(0, 1, 2, 3), (1, 2, 5, 8), (0, 0, 1, 4, 12), (3, 8, 20)])
    shapes = ["chain", "chain", "fanout", "fanin", "diamond", "multiroot", "random"]
    if focus == "C17":
        mem_fr = r.choice([[0.05, 0.2, 0.5, 1.2], [0.1, 0.3, 0.6, 0.9, 1.1, 1.5], [0.02, 0.5, 1.05]])
        dur_kinds = r.choice([(1, 2, 3), (1, 2, 5, 8), (2, 4, 6)])
        cap = r.choice([2, 4, 8, 20])
        load = r.choice([0.1, 0.25, 0.6])
        shapes = ["fanout", "multiroot", "multiroot", "random", "diamond", "chain"]
        max_ops = 6
    wide = focus == "C17" and r.random() < 0.4
    slowparent = focus == "C17" and not wide and r.random() < 0.6
    if slowparent:
        cap = r.choice([10, 20, 40])
        load = r.choice([0.25, 0.6])
    pipes = []
    burst_at = r.randint(0, max(0, nticks // 2))
    for t in range(max(nticks, 1)):
        n = 0
        while r.random() < load and len(pipes) + n < cap:
            n += 1
        if t == burst_at and r.random() < 0.5:
            n += r.randint(1, 4)
        for _ in range(n):
            if len(pipes) >= cap:
                break
            prio = r.choices(PRIOS, weights=mix)[0] if sum(mix) else "BATCH_PIPELINE"
            nops = 1 if (prio == "QUERY" and r.random() < 0.7) else r.randint(1, max_ops)
            shape = r.choice(shapes)
            if r.random() < 0.01:
                nops, shape = r.choice([30, 60, 100]), r.choice(["chain", "random"])      # far longer than the generator makes
            par = dag_parents(r, nops, shape)
            ops = []
            for oi in range(nops):
                segs = []
                for _ in range(r.choice([1, 1, 1, 2, 3])):
                    law = r.choice(LAWS)
                    cq = F(r.choice(dur_kinds)) + (F(r.choice([13, 37, 50, 71]), 100) if (offgrid or r.random() < 0.7) else 0)
                    b = cq / tps
                    fr = F(str(r.choice(mem_fr)))
                    if r.random() < 0.5:
                        # growing memory: read decides both the I/O time and the peak
                        read = fr * ram
                        if read / unit > 60:
                            read = 60 * unit * fr
                        if offgrid:
                            read = (F(int(read / unit)) + F(r.choice([13, 37, 71]), 100)) * unit
                        mem = None
                    else:
                        read = F(r.choice(dur_kinds)) * unit + (F(r.choice([13, 50, 87]), 100) * unit if (offgrid or r.random() < 0.6) else 0)
                        mem = r.choice([F(0), fr * ram, fr * ram, fr * ram / 2])
                    segs.append([fstr(b), law, None if mem is None else fstr(mem), fstr(read)])
                ops.append({"par": par[oi], "segs": segs})
            if focus == "C17" and slowparent:
                # [slow root R1, child C of R1, D that grows until it is OOM-killed]: C becomes ready while D is
                # still running and the pools are busy, so when D fails an earlier ready PENDING operator exists
                d1 = r.randint(6, 20)
                small = fstr(ram / 50)
                big = fstr(ram * F(r.choice([12, 20, 30]), 10))
                dseg = [fstr(F(2, tps)), "const", big, "0"] if r.random() < 0.6 else ["0", "const", None, big]
                # (operators are visited in topological BFS order: R1, R2, C, D)
                ops = [{"par": [], "segs": [[fstr(F(d1, tps) + F(1, 3 * tps)), "const", small, "0"]]},
                       {"par": [], "segs": [[fstr(F(r.randint(1, 3), tps) + F(1, 3 * tps)), "const", small, "0"]]},
                       {"par": [0], "segs": [[fstr(F(r.randint(1, 4), tps) + F(1, 3 * tps)), "const", small, "0"]]},
                       {"par": [1], "segs": [dseg]}]
                if r.random() < 0.5:
                    ops.append({"par": [r.choice([0, 2])], "segs": [[fstr(F(2, tps)), "const", small, "0"]]})
            if focus == "C17" and wide and nops >= 3:
                # wide pipelines (mostly roots) with one operator that cannot fit any pool, late in insertion
                # order: while it fails, earlier siblings are still pending or running on other pools
                for o in ops:
                    o["par"] = [q for q in o["par"] if q == 0 and r.random() < 0.3]
                    for sg in o["segs"]:
                        if sg[2] is not None:
                            sg[2] = fstr(F(sg[2]) / 4)
                        else:
                            sg[3] = fstr(F(sg[3]) / 4)
                big = r.randint(nops // 2, nops - 1)
                ops[big]["segs"][0][2] = fstr(ram * F(r.choice([11, 15, 30]), 10))
            pipes.append({"prio": prio, "at": t, "ops": ops})
            if r.random() < 0.25:
                pipes[-1]["scratch_parents"] = True
    if pipes and r.random() < 0.2:
        # identical twins a few ticks apart: one container's memory falls in the very tick another's rises by the same
        # amount, two results coincide, scores tie
        for _ in range(r.randint(1, 3)):
            src = r.choice(pipes)
            twin = {"prio": src["prio"], "at": min(max(nticks - 1, 0), src["at"] + r.choice([0, 1, 1, 2, 3, 5])), "ops": src["ops"]}
            pipes.append(twin)
        pipes.sort(key=lambda p_: p_["at"])
    if not pipes and nticks > 0 and r.random() < 0.9:
        pipes.append({"prio": r.choice(PRIOS), "at": 0,
                      "ops": [{"par": [], "segs": [[fstr(F(2, tps)), "const", None, fstr(2 * unit)]]}]})
    for k, p in enumerate(pipes):
        p["id"] = "p%d" % (k + 1)
    return pipes


PROB_TRIPLES = [(0.3, 0.1, 0.6), (0.7, 0.2, 0.1), (0.2, 0.7, 0.1), (0.1, 0.2, 0.7), (1.0, 0.0, 0.0), (0.0, 1.0, 0.0),
                (0.0, 0.0, 1.0), (0.5, 0.5, 0.0), (0.0, 0.3, 0.7), (0.6, 0.3, 0.1), (0.15, 0.35, 0.5),
                (0.33, 0.33, 0.34), (0.1, 0.1, 0.8), (0.25, 0.25, 0.5)]


def gen_generated(r, algo=None, tier="quick"):
    """Configuration whose workload comes from the real WorkloadGenerator."""
    if algo is None:
        algo = r.choice(["naive", "priority", "priority-pool", "overbook", "template"])
    tps = r.choice([1, 2, 5, 10, 10, 20, 100])
    nticks = r.randint(20, 400)
    pools = 2 if algo == "priority-pool" else r.choice([1, 2, 3, 8])
    i, q, b = r.choice(PROB_TRIPLES)
    multi = r.random() < 0.6
    if algo == "priority-pool" and r.random() < 0.95:
        multi = True
    cfg = {"algo": algo, "tps": tps, "duration": float(F(nticks, tps)), "pools": pools,
           "cpus": r.choice([1, 2, 4, 16, 64]), "ram": r.choice([16, 64, 256, 1000, 40.5]),
           "multi": multi, "over": True if algo == "overbook" else r.random() < 0.1,
           "waiting_seconds_mean": r.choice([0.01, 0.3, 1.0, 2.5, 10.0]) if tps > 1 else r.choice([1.0, 3.0, 10.0]),
           "num_pipelines": r.choice([1, 2, 4, 7]), "num_operators": r.choice([1, 2, 5, 9]),
           "interactive_prob": i, "query_prob": q, "batch_prob": b,
           "cpu_io_ratio": r.choice([0, 0.25, 0.5, 0.75, 1]), "random_seed": r.randint(0, 10 ** 6)}
    scn = {"kind": "sys", "cfg": cfg}
    if r.random() < 0.1:
        scn["params_as_file"] = True
    if r.random() < 0.2:
        scn["observe"] = r.randint(0, 10 ** 9)
    return scn


def gen_uncontended(r, tier="quick"):
    """one chain, one pool (two for priority-pool) with resources far above the demand"""
    algo = r.choice(["naive", "priority", "priority-pool", "overbook", "template"])
    tps = r.choice([1, 2, 3, 5, 10, 20, 100])
    unit = F(20, tps)
    n = r.randint(1, 5)
    ops = []
    total = 0
    for i in range(n):
        segs = []
        for _ in range(r.choice([1, 1, 2, 3])):
            cq = F(r.choice([0, 0, 1, 2, 3, 7, 12])) + F(r.choice([13, 37, 50, 71]), 100)
            rq = F(r.choice([0, 0, 1, 2, 5]))
            if rq or r.random() < 0.3:
                rq += F(r.choice([13, 50, 87]), 100)      # off the grid: on-grid sizes are inside the float band
            mem = None if r.random() < 0.5 else r.choice(["0", "0.5", "2"])
            segs.append([fstr(cq / tps), r.choice(LAWS), mem, fstr(rq * unit)])
            total += int(cq) + int(rq) + 2
        ops.append({"par": [i - 1] if i else [], "segs": segs})
    at = r.randint(0, 5)
    ram = max(1000, int(200 * unit) + 1000)
    if r.random() < 0.3:
        # every operator has a fixed memory size (0 included): a pool just above the largest of them is "enough memory",
        # however much is read
        for o in ops:
            for sg in o["segs"]:
                sg[2] = r.choice(["0", "0", "0.5", "2", "2.2"])
                if r.random() < 0.5:
                    sg[3] = fstr((F(r.choice([2, 5, 9])) + F(r.choice([13, 50, 87]), 100)) * unit)
        ram = r.choice([3, 2.5, 4, 2.75])
    cfg = {"algo": algo, "tps": tps, "duration": float(F(at + total + r.randint(3, 10), tps)),
           "pools": 2 if algo == "priority-pool" else 1, "cpus": r.choice([1, 2, 4, 10, 16, 64, 1.5, 2.5, 12.5]), "ram": ram,
           "multi": True if algo == "priority-pool" else r.random() < 0.5, "over": algo == "overbook"}
    prio = r.choice(PRIOS)
    return {"kind": "sys", "cfg": cfg, "pipes": [{"prio": prio, "at": at, "id": "p1", "ops": ops}]}


def gen_preempt(r, tier="quick", offgrid=True):
    """Workloads that make the priority scheduler pre-empt: few CPUs (a pool is depleted after `cpus` containers of
    1 CPU), multi-operator batch/interactive containers with short operators (boundaries every few ticks) saturating the
    pools, and query bursts arriving on top.  Write-outs from one tick (tps 1..3) to tens of ticks."""
    tps = r.choice([1, 1, 2, 3, 5, 10, 20, 50])
    unit = F(20, tps)
    pools = r.choice([1, 1, 2, 3])
    cpus = r.choice([1, 2, 3, 4, 8, 2.5, 12.5])
    ram = r.choice([8, 20, 64, 100, 256])
    nticks = r.randint(40, 250)
    cfg = {"algo": "priority", "tps": tps, "duration": float(F(nticks, tps)), "pools": pools, "cpus": cpus, "ram": ram,
           "multi": True, "over": False}
    frac_ = lambda: F(r.choice([13, 37, 71]), 100) if offgrid else 0
    pipes = []
    small = F(ram, 200)

    def chain(prio, at, nops, dur_max):
        ops = []
        for i in range(nops):
            d = F(r.randint(1, dur_max)) + frac_()
            if r.random() < 0.5:
                seg = [fstr(d / tps), r.choice(["const", "const", "linear3", "exp"]), fstr(small), "0"]
            else:
                seg = [fstr(frac_() / tps) if offgrid else "0", "const", None, fstr((F(r.randint(1, dur_max)) + frac_()) * unit / 8)]
            par = [i - 1] if i and r.random() < 0.8 else []
            ops.append({"par": par, "segs": [seg]})
        return {"prio": prio, "at": at, "ops": ops}
    nb = r.randint(int(pools * cpus), int(pools * cpus * 3))
    for k in range(nb):
        pipes.append(chain(r.choice(["BATCH_PIPELINE", "BATCH_PIPELINE", "INTERACTIVE"]), r.randint(0, 3), r.randint(2, 6), r.choice([2, 4, 8])))
    t = r.randint(2, 8)
    while t < nticks - 5 and len(pipes) < 60:
        for _ in range(r.randint(1, 4)):
            q = chain("QUERY", t, r.choice([1, 1, 2, 3]), r.choice([1, 3, 6]))
            pipes.append(q)
        if r.random() < 0.4:
            pipes.append(chain(r.choice(["BATCH_PIPELINE", "INTERACTIVE"]), t, r.randint(2, 5), 4))
        t += r.randint(1, 25)
    pipes.sort(key=lambda p: p["at"])
    for k, p in enumerate(pipes):
        p["id"] = "p%d" % (k + 1)
    scn = {"kind": "sys", "cfg": cfg, "pipes": pipes}
    if r.random() < 0.2:
        scn["decoy_at"] = r.randint(1, max(1, nticks // 2))
    if r.random() < 0.2:
        scn["observe"] = r.randint(0, 10 ** 9)
    return scn


def gen_bigrun(r, tier="quick"):
    """Count reach for the statistics: tens of thousands to 130 000 one-tick pipelines, nearly all of one priority class,
    arriving slightly slower than 64 whole-pool containers per tick can serve them.  Described compactly; expanded when run."""
    tps = r.choice([1, 2, 10])
    pools = 64
    per_tick = r.choice([30, 48, 60])
    n = r.choice([70000, 104000, 131000, 131000] if tier == "quick" else [40000, 104000, 131000, 131000, 262500])
    nticks = n // per_tick + r.randint(3, 30)
    cfg = {"algo": r.choice(["naive", "naive", "overbook"]), "tps": tps, "duration": float(F(nticks, tps)), "pools": pools,
           "cpus": r.choice([1, 4]), "ram": 64, "multi": r.random() < 0.5, "over": False}
    cfg["over"] = cfg["algo"] == "overbook"
    return {"kind": "sys", "cfg": cfg, "big": {"n": n, "per_tick": per_tick, "main": r.choice(PRIOS), "other_every": r.choice([97, 1000])}}


def expand_big(scn):
    b = scn["big"]
    unit = F(20, scn["cfg"]["tps"])
    seg = [["0", "const", None, fstr(unit)]]        # one I/O tick, one unit of memory
    others = [p for p in PRIOS if p != b["main"]]
    pipes = []
    for k in range(b["n"]):
        prio = b["main"] if k % b["other_every"] else others[(k // b["other_every"]) % 2]
        pipes.append({"prio": prio, "at": k // b["per_tick"], "id": "p%d" % (k + 1), "ops": [{"par": [], "segs": seg}]})
    return dict(scn, pipes=pipes)


def gen_many(r, algo, tier="quick"):
    """History reach for the policies: 1 200 - 3 000 one-tick pipelines stream through while a few 'victim' pipelines
    (a root, a child that runs for hundreds of ticks, a child that can never fit and fails until it is given up) stay
    around - whatever a scheduler remembers about a pipeline must still hold a thousand pipelines later."""
    tps = r.choice([1, 2, 10])
    unit = F(20, tps)
    pools = 2 if algo == "priority-pool" else r.choice([2, 4])
    cpus = r.choice([4, 8])
    ram = 64 * unit
    n = r.randint(1200, 2000) if tier == "quick" else r.randint(1500, 3000)
    per_tick = r.choice([3, 5, 8])
    nticks = n // per_tick + r.randint(20, 60)
    cfg = {"algo": algo, "tps": tps, "duration": float(F(nticks, tps)), "pools": pools, "cpus": cpus,
           "ram": float(ram) if ram.denominator != 1 else int(ram), "multi": algo == "priority-pool" or r.random() < 0.5,
           "over": algo == "overbook"}
    small = fstr(unit / 4)
    pipes = []
    for v in range(r.randint(1, 3)):
        long_ticks = r.randint(nticks // 2, nticks - 10)
        big = fstr(ram * r.choice([2, 3]))
        ops = [{"par": [], "segs": [[fstr(F(1, tps)), "const", small, "0"]]},
               {"par": [0], "segs": [[fstr(F(long_ticks, tps)), "const", small, "0"]]},
               {"par": [0], "segs": [[fstr(F(2, tps)), "const", big, "0"]]}]
        if r.random() < 0.5:
            ops.append({"par": [1], "segs": [[fstr(F(2, tps)), "const", small, "0"]]})
        pipes.append({"prio": r.choice(PRIOS), "at": r.randint(0, 4), "ops": ops})
    for k in range(n):
        pipes.append({"prio": r.choice(PRIOS), "at": 5 + k // per_tick,
                      "ops": [{"par": [], "segs": [[fstr(F(1, tps)), "const", small, "0"]]}]})
    pipes.sort(key=lambda p_: p_["at"])
    for k, p in enumerate(pipes):
        p["id"] = "p%d" % (k + 1)
    return {"kind": "sys", "cfg": cfg, "pipes": pipes}


def gen_steps(r, tier="quick"):
    """Coinciding memory steps under the priority scheduler: a full pool of multi-operator chains whose operators all
    last 5 or 10 ticks and hold fixed memory from a handful of whole-GB sizes (some above the 10 % allocation the scheduler
    gives), so that in one tick several containers step up and down by the same amounts - and queries arriving right after
    those ticks, when nothing is free."""
    tps = 10
    cpus = r.choice([8, 10])
    ram = 10 * cpus
    nticks = r.randint(40, 90)
    cfg = {"algo": "priority", "tps": tps, "duration": float(F(nticks, tps)), "pools": 1, "cpus": cpus, "ram": ram,
           "multi": True, "over": False}
    sizes = [1, 2, 3, 8, 10, 11, 12]
    pipes = []
    for k in range(cpus):
        ops = []
        for i in range(r.choice([2, 2, 3])):
            d = r.choice([5, 10]) if i < 1 or r.random() < 0.5 else 200
            ops.append({"par": [i - 1] if i else [], "segs": [[fstr(F(d, tps)), "const", fstr(F(r.choice(sizes))), "0"]]})
        pipes.append({"prio": r.choice(["BATCH_PIPELINE", "BATCH_PIPELINE", "INTERACTIVE"]), "at": 0, "ops": ops})
    for t in sorted(set(r.choice([6, 11, 11, 16, 21]) + r.choice([0, 0, 1]) for _ in range(r.randint(1, 4)))):
        pipes.append({"prio": "QUERY", "at": t, "ops": [{"par": [], "segs": [[fstr(F(r.choice([2, 5]), tps)), "const", "1", "0"]]}]})
    pipes.sort(key=lambda p_: p_["at"])
    for k, p in enumerate(pipes):
        p["id"] = "p%d" % (k + 1)
    return {"kind": "sys", "cfg": cfg, "pipes": pipes}


def gen_chaos(r, tier="quick"):
    """full-loop scenario for the chaos custom scheduler"""
    scn = gen(r, "naive", "chaos", tier, offgrid=True)
    scn["cfg"]["algo"] = "chaos"
    scn["cfg"]["over"] = r.random() < 0.35
    scn["chaos"] = {"seed": r.randint(0, 10 ** 9), "p_sus": r.choice([0, 0.1, 0.5, 1.0]), "p_asg": r.choice([0.3, 0.7, 1.0]),
                    "per_pool": r.choice([1, 2, 4]), "p_op": r.choice([0.5, 0.8, 1.0]), "retry": r.random() < 0.7}
    return scn
