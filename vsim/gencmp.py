"""CMP driver for C15: the real WorkloadGenerator stepped tick by tick (with
discrete-event jumps over long idle gaps) over seeds x parameter sets."""
import math

from .common import Violation, import_repo, digest

PROTOS = {(1.0, "const", 55.0): "io", (2.0, "sqrt", 55.0): "p2", (5.0, "linear3", 45.0): "p3",
          (15.0, "linear3", 37.5): "p4", (20.0, "linear7", 30.0): "p5", (40.0, "linear7", 20.0): "p6",
          (80.0, "squared", 10.0): "p7", (15.0, "linear3", 35.0): "query"}
CPU_HEAVY = {"p5", "p6", "p7"}


STALE = object()


def seg_key(seg):
    from eudoxia.workload.pipeline import Segment
    law = [n for n, f in Segment.SCALING_FUNCS.items() if f == seg.scaling_func]
    return (float(seg.baseline_cpu_seconds), law[0] if law else "?", float(seg.storage_read_gb))


def step_generator(params, nticks, max_pipelines, stats, check=True, direct=False, companion=None):
    """Step a fresh generator; structural oracle on every emission; returns gaps (ticks)."""
    import_repo()
    from eudoxia.workload import WorkloadGenerator
    g = WorkloadGenerator(**params)
    ids = set()
    last_emit = None
    gaps = []
    t = 0
    npl = params["num_pipelines"]
    probs = {"INTERACTIVE": params["interactive_prob"], "QUERY": params["query_prob"], "BATCH_PIPELINE": params["batch_prob"]}
    others = []
    while t < nticks and stats["pipelines"] < max_pipelines:
        if companion is not None and stats["events"] == 2 and not others:
            # a second generator with other parameters is built (and used) while this one is in the middle of its run:
            # two workloads merged by a caller, a second simulation set up in the same process
            g2 = WorkloadGenerator(**companion)
            for _ in range(5):
                g2.run_one_tick()
            others.append(g2)
        if direct and t % 97 == 13:
            # a caller taking an extra batch through the public generate_pipelines() (a burst, an initial backlog)
            for p in g.generate_pipelines():
                if p.pipeline_id in ids:
                    raise Violation("C15.duplicate_id", {"pipeline": p.pipeline_id, "how": "generate_pipelines() called directly"}, t)
                ids.add(p.pipeline_id)
        ret = g.run_one_tick()
        out = list(ret)
        if any(x is STALE for x in out):
            raise Violation("C15.stale_delivery", {"tick": t, "why": "a list handed out earlier and modified by the caller came back"}, t)
        ret.append(STALE)          # callers own what they are handed (merging workloads extend these lists)
        if out:
            if last_emit is not None:
                gaps.append(t - last_emit)
                if t - last_emit < 1:
                    raise Violation("C15.two_events_in_a_tick", {"tick": t}, t)
            last_emit = t
            stats["events"] += 1
            if len(out) != npl:
                raise Violation("C15.batch_size", {"delivered": len(out), "num_pipelines": npl, "tick": t}, t)
            for p in out:
                stats["pipelines"] += 1
                if p.pipeline_id in ids:
                    raise Violation("C15.duplicate_id", {"pipeline": p.pipeline_id}, t)
                ids.add(p.pipeline_id)
                pr = p.priority.name
                stats["prio"][pr] = stats["prio"].get(pr, 0) + 1
                if probs[pr] == 0:
                    raise Violation("C15.zero_probability_class", {"priority": pr, "params": params}, t)
                ops = list(p.values.node_lookup.values())
                if len(ops) < 1:
                    raise Violation("C15.empty_pipeline", {"pipeline": p.pipeline_id}, t)
                if pr == "QUERY":
                    if len(ops) != 1:
                        raise Violation("C15.query_ops", {"ops": len(ops)}, t)
                else:
                    stats["nq_pipelines"] += 1
                    stats["nq_ops"] += len(ops)
                    stats["nq_ops_sq"] += len(ops) ** 2
                for i, o in enumerate(ops):
                    want_par = [] if i == 0 else [ops[i - 1]]
                    if len(o.parents) != len(want_par) or any(a is not b for a, b in zip(o.parents, want_par)):
                        raise Violation("C15.not_a_chain", {"operator": i, "parents": len(o.parents)}, t)
                    segs = o.get_segments()
                    if len(segs) != 1:
                        raise Violation("C15.segments", {"operator": i, "segments": len(segs)}, t)
                    k = seg_key(segs[0])
                    name = PROTOS.get(k)
                    if name is None or segs[0].memory_gb is not None:
                        raise Violation("C15.unknown_prototype", {"segment": list(k), "memory_gb": segs[0].memory_gb}, t)
                    if pr == "QUERY":
                        continue
                    if i == 0:
                        if name != "io":
                            raise Violation("C15.first_operator_not_io_heavy", {"segment": list(k)}, t)
                    else:
                        stats["later"] += 1
                        if name in CPU_HEAVY:
                            stats["later_cpu_heavy"] += 1
                        stats["later_mix"][name] = stats["later_mix"].get(name, 0) + 1
            # discrete-event jump over an idle gap
            wait = getattr(g, "curr_waiting_ticks", None)
            since = getattr(g, "ticks_since_last_gen", None)
            if isinstance(wait, int) and isinstance(since, int) and wait - since > 4:
                skip = wait - since - 2
                g.ticks_since_last_gen = since + skip
                t += skip
                stats["jumped_ticks"] += skip
        elif last_emit is not None:
            limit = max(200, 10 * int(params["waiting_seconds_mean"] * params["ticks_per_second"]) + 50)
            if t - last_emit > limit:
                raise Violation("C15.generator_silent", {"last_event_tick": last_emit, "ticks_without_event": t - last_emit,
                                                         "waiting_ticks_mean": int(params["waiting_seconds_mean"] * params["ticks_per_second"]),
                                                         "events_so_far": stats["events"]}, t)
        t += 1
    stats["ticks"] += t
    return gaps


def new_stats():
    return {"events": 0, "pipelines": 0, "prio": {}, "nq_pipelines": 0, "nq_ops": 0, "nq_ops_sq": 0, "later": 0,
            "later_cpu_heavy": 0, "later_mix": {}, "jumped_ticks": 0, "ticks": 0}


def hoeffding(n, delta=1e-12):
    return math.sqrt(math.log(2 / delta) / (2 * n))


def run_gen(scn):
    out = {"violation": None, "discard": None, "faults": {}, "probes": {}, "ticks": 0, "nontrivial": True}
    params = dict(scn["params"])
    st = new_stats()
    try:
        gaps = step_generator(params, scn["nticks"], scn["max_pipelines"], st, direct=bool(scn.get("direct_batches")),
                              companion=scn.get("companion"))
        n = st["pipelines"]
        probes = {"events": st["events"], "pipelines": n}
        # priorities follow the configured probabilities
        if n >= 400:
            eps = hoeffding(n)
            for pr, key in (("INTERACTIVE", "interactive_prob"), ("QUERY", "query_prob"), ("BATCH_PIPELINE", "batch_prob")):
                f = st["prio"].get(pr, 0) / n
                if abs(f - params[key]) > eps:
                    raise Violation("C15.priority_frequency", {"priority": pr, "configured": params[key], "observed": f,
                                                               "n": n, "tolerance": eps})
                if params[key] == 1 and st["prio"].get(pr, 0) != n:
                    raise Violation("C15.probability_one", {"priority": pr, "observed": st["prio"]})
            probes["freq_checked"] = 1
        # a class with a small but positive probability does turn up (exact tail, not Hoeffding)
        for pr, key in (("INTERACTIVE", "interactive_prob"), ("QUERY", "query_prob"), ("BATCH_PIPELINE", "batch_prob")):
            pk = params[key]
            if 0 < pk < 1 and st["prio"].get(pr, 0) == 0 and n > 0 and n * math.log1p(-pk) < math.log(1e-12):
                raise Violation("C15.class_never_generated", {"priority": pr, "configured": pk, "pipelines": n,
                                                              "chance_of_that": math.exp(n * math.log1p(-pk))})
            if 0 < pk < 1 and st["prio"].get(pr, 0) == n and n > 0 and n * math.log(pk) < math.log(1e-12):
                raise Violation("C15.class_always_generated", {"priority": pr, "configured": pk, "pipelines": n})
        # about num_operators on average (truncation towards zero costs about a half)
        m = st["nq_pipelines"]
        if m >= 400:
            mean = st["nq_ops"] / m
            var = max(0.0, st["nq_ops_sq"] / m - mean * mean)
            eps = 7 * math.sqrt(var / m) + 0.05
            mu = params["num_operators"]
            if not (mu - 1 - eps <= mean <= mu + eps):
                raise Violation("C15.mean_operators", {"num_operators": mu, "observed_mean": mean, "n": m, "tolerance": eps})
            probes["ops_checked"] = 1
        # gaps average waiting_seconds_mean when that spans many ticks
        wt = int(params["waiting_seconds_mean"] * params["ticks_per_second"])
        if wt >= 100 and len(gaps) >= 200:
            mean = sum(gaps) / len(gaps)
            tol = 0.03 * wt + 7 * (wt / 4) / math.sqrt(len(gaps)) + 2
            if abs(mean - wt) > tol:
                raise Violation("C15.mean_gap", {"waiting_ticks": wt, "observed_mean_gap": mean, "gaps": len(gaps), "tolerance": tol})
            probes["gap_checked"] = 1
        # raising cpu_io_ratio shifts the later operators towards CPU-heavy prototypes
        if scn.get("paired"):
            lo, hi = new_stats(), new_stats()
            step_generator(dict(params, cpu_io_ratio=0.0), scn["nticks"], scn["max_pipelines"], lo)
            step_generator(dict(params, cpu_io_ratio=1.0), scn["nticks"], scn["max_pipelines"], hi)
            if lo["later"] >= 1000 and hi["later"] >= 1000:
                f0 = lo["later_cpu_heavy"] / lo["later"]
                f1 = hi["later_cpu_heavy"] / hi["later"]
                if f1 - f0 < 0.2:
                    raise Violation("C15.cpu_io_ratio_no_effect", {
                        "cpu_heavy_fraction_at_0": f0, "cpu_heavy_fraction_at_1": f1, "later_operators": [lo["later"], hi["later"]],
                        "mix_at_0": lo["later_mix"], "mix_at_1": hi["later_mix"]})
                probes["ratio_checked"] = 1
        probes["jumped_ticks"] = st["jumped_ticks"]
        out["probes"] = probes
    except Violation as v:
        out["violation"] = v.to_json()
    out["ticks"] = st["ticks"]
    out["sim_s"] = st["ticks"] / params["ticks_per_second"]
    out["faults"] = {k: 1 for k in ("zero_prob_class", "prob_one") if scn.get(k)}
    out["sig"] = digest(scn["params"])
    return out


def gen_scn(r, tier):
    from .sysgen import PROB_TRIPLES
    tps = r.choice([1, 2, 5, 10, 16, 100, 1000, 10 ** 4, 10 ** 5])
    i, q, b = r.choice(PROB_TRIPLES)
    fine = r.random() < 0.12
    if fine:
        # triples that are not whole percents: a class of a few per mille, thirds
        i, q, b = r.choice([(0.996, 0.004, 0.0), (0.0, 0.0045, 0.9955), (0.004, 0.0, 0.996), (0.333, 0.333, 0.334), (0.1234, 0.4321, 0.4445),
                            (0.0035, 0.0035, 0.993)])
    kind = r.choice(["dense", "dense", "sparse", "subtick", "long"])
    if kind == "dense":
        wt = r.choice([1, 2, 3, 7, 20, 50])
    elif kind == "sparse":
        wt = r.choice([100, 150, 400, 1000])
    elif kind == "subtick":
        wt = r.choice([0.2, 0.5, 0.9])
    else:
        wt = r.choice([60 * tps, 300 * tps, 5000])
    params = {"ticks_per_second": tps, "waiting_seconds_mean": wt / tps, "num_pipelines": r.choice([1, 1, 2, 4, 7, 12]),
              "num_operators": r.choice([1, 2, 3, 5, 8, 13, 20]), "num_segs": 1,
              "cpu_io_ratio": r.choice([0, 0.25, 0.5, 0.75, 1]), "random_seed": r.randint(0, 10 ** 9),
              "interactive_prob": i, "query_prob": q, "batch_prob": b}
    # int(waiting_seconds_mean * tps) must reproduce wt: keep products exact
    params["waiting_seconds_mean"] = float(params["waiting_seconds_mean"])
    maxp = r.choice([600, 1500, 3000]) if tier == "quick" else r.choice([1500, 4000, 8000])
    if fine:
        maxp = 9000         # (1 - 0.0035) ** 9000 < 1e-12: absence is then no accident
    return {"kind": "gen", "params": params, "nticks": 10 ** 9, "max_pipelines": maxp,
            "paired": r.random() < 0.3 and b + i > 0.3,
            "zero_prob_class": 0 in (i, q, b), "prob_one": 1 in (i, q, b),
            "direct_batches": kind == "dense" and r.random() < 0.3,
            "companion": None if r.random() < 0.7 else dict(params, interactive_prob=b, query_prob=i, batch_prob=q,
                                                            num_pipelines=r.choice([1, 3, 9]), num_operators=r.choice([1, 4, 11]),
                                                            waiting_seconds_mean=float(r.choice([1, 5, 40])) / tps,
                                                            cpu_io_ratio=r.choice([0, 1]), random_seed=r.randint(0, 10 ** 9))}
