"""EX driver: the real Executor stepped tick by tick in lock-step with the
reference model, driven by a seeded chaos scheduler (generate mode) or by a
recorded command script (replay mode).  DESIGN 2.1."""
import random as _random
from fractions import Fraction as F

from .common import Discard, Violation, import_repo, digest
from . import model as M
from .model import frac

PRIOS = ("QUERY", "INTERACTIVE", "BATCH_PIPELINE")
TOL = 1e-9


def fstr(x):
    """Fraction -> shortest exact decimal string if finite, else 12 significant digits."""
    x = F(x)
    d = x.denominator
    while d % 2 == 0:
        d //= 2
    while d % 5 == 0:
        d //= 5
    if d == 1:
        from decimal import Decimal
        s = format(Decimal(x.numerator) / Decimal(x.denominator), "f")
        if "." in s:
            s = s.rstrip("0").rstrip(".")
        return s or "0"
    return "%.12g" % float(x)


# ---------------------------------------------------------------------------
# event log: every PipelineRuntimeStatus.transition goes through here
# ---------------------------------------------------------------------------
class EventLog:
    EDGES = {("pending", "assigned"), ("assigned", "running"), ("assigned", "suspending"),
             ("assigned", "failed"), ("running", "completed"), ("running", "failed"),
             ("suspending", "pending"), ("failed", "assigned")}

    def __init__(self):
        self.seq = 0
        self.tick = -1
        self.events = []
        self.shadow = {}      # id(op) -> state value, reconstructed from successful transitions
        self.keys = {}        # id(op) -> key
        self.ops = {}         # id(op) -> op (keeps the object alive, so ids are stable)
        self.bad = None
        self.counts = {}
        self.done_tick = {}   # id(op) -> tick of its transition to completed

    def register(self, op, key):
        self.shadow[id(op)] = "pending"
        self.keys[id(op)] = key
        self.ops[id(op)] = op

    def note(self, op, old, new, ok):
        self.seq += 1
        k = self.keys.get(id(op))
        if len(self.events) < 20000:
            self.events.append((self.seq, self.tick, k, old, new, ok))
        if not ok or k is None:
            return
        self.counts[new] = self.counts.get(new, 0) + 1
        if self.bad is None:
            if (old, new) not in self.EDGES:
                self.bad = Violation("C02.edge", {"op": k, "from": old, "to": new}, self.tick)
            elif self.shadow.get(id(op)) != old:
                self.bad = Violation("C02.shadow", {"op": k, "log_state": self.shadow.get(id(op)), "from": old}, self.tick)
            elif new == "running":
                for q in op.parents:
                    if self.shadow.get(id(q)) != "completed":
                        self.bad = Violation("C01.start_before_parent", {
                            "op": k, "parent": self.keys.get(id(q)), "parent_state": self.shadow.get(id(q))}, self.tick)
        self.shadow[id(op)] = new
        if new == "completed":
            self.done_tick[id(op)] = self.tick


_LOG = None
_installed = False


def observe(ex, pipelines, rr, results=(), assignments=()):
    """A bystander reading public, documented-as-read-only state at an arbitrary moment (a dashboard, a logging scheduler,
    a debugger session): a seeded subset of getters, to_dict and repr calls on executor, pools, containers, results,
    pipelines, operators and segments.  Nothing is checked here - if looking changes anything, the lock-step model or the
    paired run notices in the ticks that follow.  Exceptions are swallowed (and counted): observation only."""
    n = errs = 0

    def call(f, *a):
        nonlocal n, errs
        n += 1
        try:
            return f(*a)
        except Exception:  # noqa: BLE001
            errs += 1
            return None
    if rr.random() < 0.7:
        for f in (ex.get_pool_id_with_max_avail_ram, ex.num_completed, ex.container_tick_times, ex.get_total_ram_gb,
                  ex.get_allocated_ram_gb, ex.get_consumed_ram_gb):
            if rr.random() < 0.5:
                call(f)
    for pl in ex.pools:
        if rr.random() < 0.5:
            call(pl.get_allocated_ram_gb)
            call(pl.get_consumed_ram_gb)
        if rr.random() < 0.4:
            call(pl.to_dict)
        for lst in (pl.active_containers, pl.suspending_containers, list(pl.suspended_containers)[-3:]):
            for c in list(lst):
                if rr.random() < 0.4:
                    for f in (c.get_pipeline_id, c.ticks_elapsed, c.is_completed, c.get_current_memory_usage,
                              c.can_suspend_container, c.is_suspended, c.to_dict):
                        if rr.random() < 0.6:
                            call(f)
                    call(repr, c)
                    call(repr, c.assignment)
                    if c in pl.active_containers and rr.random() < 0.5:
                        call(pl.get_container_by_id, c.container_id)
    for r_ in results:
        if rr.random() < 0.5:
            call(r_.failed)
            call(r_.to_dict)
            call(repr, r_)
    for a in assignments:
        if rr.random() < 0.5:
            call(repr, a)
    from eudoxia.workload import OperatorState as S_
    for p in pipelines:
        if rr.random() < 0.3:
            rs = call(p.runtime_status)
            call(p.to_dict)
            if rs is not None:
                call(rs.is_pipeline_successful)
                call(rs.get_ops, rr.choice(list(S_)))
                call(rs.get_ops, [S_.PENDING, S_.FAILED], True)
            ops = call(list, p.values) or []
            for o in ops:
                if rr.random() < 0.5:
                    call(o.state)
                    call(o.to_dict)
                    for sg in call(o.get_segments) or []:
                        call(sg.get_io_seconds)
                        call(sg.get_cpu_time, rr.choice([1, 2, 8]))
                        call(sg.get_peak_memory_gb)
                        call(sg.get_seconds_until_oom, rr.choice([0.5, 4, 64]))
    return n, errs


KILL_MEM = {}       # container id -> memory held when Container.kill was called (reset per run)


def install_transition_seam():
    """Wrap PipelineRuntimeStatus.transition (whatever it is in the tree under
    test) so that every request, accepted or refused, is logged."""
    global _installed
    if _installed:
        return
    import_repo()
    from eudoxia.workload.runtime_status import PipelineRuntimeStatus
    orig = PipelineRuntimeStatus.transition

    def transition(self, operator, new_state):
        log = _LOG
        if log is None:
            return orig(self, operator, new_state)
        old = self.operator_states.get(operator)
        oldv = old.value if old is not None else None
        try:
            r = orig(self, operator, new_state)
        except BaseException:
            log.note(operator, oldv, new_state.value, False)
            raise
        log.note(operator, oldv, new_state.value, True)
        return r

    PipelineRuntimeStatus.transition = transition
    # memory a container held at the moment it was killed (gone afterwards; the model needs it for a forced tick)
    from eudoxia.executor.container import Container
    kill0 = Container.kill

    def kill(self, *a, **kw):
        try:
            KILL_MEM[self.container_id] = self.get_current_memory_usage()
        except Exception:  # noqa: BLE001 - observation only
            pass
        return kill0(self, *a, **kw)

    Container.kill = kill
    _installed = True


def set_log(log):
    global _LOG
    _LOG = log


# ---------------------------------------------------------------------------
# building real + model pipelines from scenario data
# ---------------------------------------------------------------------------
class Built:
    pass


def build_pipes(pipes, log):
    import_repo()
    from eudoxia.workload import Pipeline
    from eudoxia.workload.pipeline import Segment
    from eudoxia.utils import Priority
    out = []
    scratch = []
    for pi, pd in enumerate(pipes):
        p = Pipeline(pd.get("id", f"p{pi}"), Priority[pd["prio"]])
        rops, mops = [], []
        for oi, od in enumerate(pd["ops"]):
            par = od.get("par", [])
            if pd.get("scratch_parents") and par and oi % 2:
                op = p.new_operator(rops[j] for j in par)      # parents as a one-shot iterable
            elif pd.get("scratch_parents") and par:
                # a caller that builds the parent list in a scratch list and reuses it for the next operator
                scratch[:] = [rops[j] for j in par]
                op = p.new_operator(scratch)
                scratch[:] = []
            else:
                op = p.new_operator([rops[j] for j in par] or None)
            segs = []
            last = None
            for (b, law, mem, read) in od["segs"]:
                if od.get("same_segment_object") and last is not None and last[0] == (b, law, mem, read):
                    sobj = last[1]        # the caller adds one Segment object several times (a scan repeated three times)
                else:
                    sobj = Segment(baseline_cpu_seconds=float(b), cpu_scaling=law, memory_gb=None if mem is None else float(mem),
                                   storage_read_gb=float(read))
                op.add_segment(sobj)
                last = ((b, law, mem, read), sobj)
                segs.append((frac(b), law, None if mem is None else frac(mem), frac(read)))
            rops.append(op)
            mops.append(M.MOp((pi, oi), segs, [mops[j] for j in par]))
            if log is not None:
                log.register(op, (pi, oi))
        p.runtime_status()
        b = Built()
        b.p, b.rops, b.mops, b.at, b.prio = p, rops, mops, pd.get("at", 0), pd["prio"]
        out.append(b)
    return out


# ---------------------------------------------------------------------------
# chaos scheduler (generate mode).  Consults the model only.
# ---------------------------------------------------------------------------
def solo_outcome(ops, cpu, ram, tps, exact):
    """What happens to a container running alone: ('ok', ticks) or ('oom', tick).
    Raises Discard when a decision falls into the ambiguity band."""
    ar = M.Arith(exact)
    t = 0
    for op in ops:
        plan = M.op_plan(op, cpu, tps, ar)
        for m in plan:
            t += 1
            if m is M.FREE:
                if ar.gt(op.peak(), ram):
                    raise Discard("forced tick")
                continue
            if ar.gt(m, ram):
                return ("oom", t)
    return ("ok", t)


class Chaos:
    FAULTS = ("oversell_cpu", "oversell_ram", "oversell_during_writeout", "sus_not_boundary", "sus_suspending", "sus_suspended",
              "sus_unknown", "sus_other_pool", "sus_twice", "pool_range_asg", "pool_range_sus",
              "dep_pending_parent", "dep_order", "dep_late", "construct_completed", "construct_assigned",
              "construct_cpu0", "construct_ram0", "construct_empty", "construct_dup", "construct_suspending", "opcount")

    def __init__(self, rng, cfg, knobs, built, mex, unit):
        self.r = rng
        self.cfg = cfg
        self.k = knobs
        self.built = built
        self.mex = mex
        self.unit = unit          # GB of memory growth per I/O tick = 20 / tps
        self.n = 0
        self.lab = {}             # label -> MCont
        self.fault_done = False
        self.cpus = [frac(c) for c in knobs["cpus"]]

    def label(self):
        self.n += 1
        return f"a{self.n}"

    def ram_choices(self, peak_units):
        """candidate allocations, in GB, around a peak given in units"""
        u = self.unit
        mult = [F(1, 4), F(1, 2), F(3, 4), F(7, 8), 1, F(9, 8), F(3, 2), 2, 4]
        out = []
        for m in mult:
            q = peak_units * m
            if self.cfg["exact"]:
                q = F(round(q * 4), 4)
            else:
                q = F(round(q * 1000), 1000) + F(37, 100000)
            if q > 0:
                out.append(q * u)
        return out

    def pick_ops(self, b):
        """A dependency-closed, topologically ordered subset of assignable operators."""
        r = self.r
        chosen = []
        want_p = self.k["p_op"]
        states = (M.P, M.FL) if self.k["retry"] else (M.P,)
        for i, m in enumerate(b.mops):
            if m.state not in states:
                continue
            if not all(q.state == M.C or q in [b.mops[j] for j in chosen] for q in m.parents):
                continue
            if r.random() < want_p:
                chosen.append(i)
                if not self.cfg["multi"]:
                    break
        return chosen

    def decide(self, t, T):
        r, k, cfg = self.r, self.k, self.cfg
        cmds = []
        pools = self.mex.pools
        # legal suspensions
        for p in pools:
            for c in p.active:
                if c.can_suspend and r.random() < k["p_sus"]:
                    cmds.append({"k": "sus", "ref": c.label, "pool": p.pid})
        av = [[p.av_cpu, p.av_ram] for p in pools]
        for bi, b in enumerate(self.built):
            if b.at > t or r.random() >= k["p_asg"]:
                continue
            ops = self.pick_ops(b)
            if not ops:
                continue
            pid = r.randrange(len(pools))
            if av[pid][0] < 1:
                continue
            cpu = F(r.choice([c for c in self.cpus if c <= av[pid][0]] or [1]))
            if cpu > av[pid][0]:
                continue
            mops = [b.mops[i] for i in ops]
            ram = self.choose_ram(mops, cpu, av[pid][1], pools[pid])
            if ram is None:
                continue
            av[pid][0] -= cpu
            av[pid][1] -= ram
            cmds.append({"k": "asg", "id": self.label(), "pl": bi, "ops": ops, "cpu": fstr(cpu),
                         "ram": fstr(ram), "pool": pid})
            if r.random() < 0.1:
                cmds[-1]["force"] = True
            if r.random() < 0.1 or (r.random() < 0.7 and any(c.ops and c.ops[0].key[0] == bi for p in pools for c in p.suspended)):
                cmds[-1]["resume"] = True       # work of a suspended container goes on: flagged as a resume
        if k["fault"] and not self.fault_done and t >= k["fault_tick"]:
            f = self.make_fault(k["fault"], t, cmds, av)
            if f is not None:
                self.fault_done = True
                cmds = f
        return cmds

    def choose_ram(self, mops, cpu, av_ram, pool):
        r, k, cfg = self.r, self.k, self.cfg
        u = self.unit
        try:
            peaks = []
            ar = M.Arith(cfg["exact"])
            for op in mops:
                plan = M.op_plan(op, cpu, cfg["tps"], ar)
                peaks.append(max([(m if m is not M.FREE else op.peak()) for m in plan]))
        except Discard:
            return None
        top = max(peaks)
        mode = r.choices(["ok", "oom", "tight", "whole"], weights=k["alloc_w"])[0]
        if mode == "whole":
            cand = [pool.cap_ram, av_ram if av_ram > 0 else pool.cap_ram]
            if not cfg["exact"]:
                # an exact fit is inside the float band outside dyadic mode
                cand = [x * F(997, 1000) for x in cand]
        elif mode == "oom":
            j = r.randrange(len(peaks))
            cand = self.ram_choices(peaks[j] / u * F(r.choice([1, 3, 7]), 8))
        elif mode == "tight":
            cand = self.ram_choices(top / u)[3:6]
        else:
            cand = self.ram_choices(top / u)[4:]
        if top == 0:
            cand = cand + [u, 2 * u]
        r.shuffle(cand)
        for ram in cand:
            if ram <= 0:
                continue
            if not cfg["over"] and ram > av_ram:
                continue
            try:
                solo_outcome(mops, cpu, ram, cfg["tps"], cfg["exact"])
            except Discard:
                continue
            return ram
        return None

    # -- one decisive inadmissible decision per run ---------------------------
    def make_fault(self, kind, t, cmds, av):
        r, cfg = self.r, self.cfg
        pools = self.mex.pools
        asgs = [c for c in cmds if c["k"] == "asg"]

        def ready_ops(states=(M.P, M.FL)):
            out = []
            for bi, b in enumerate(self.built):
                if b.at > t:
                    continue
                used = set(i for c in asgs if c["pl"] == bi for i in c["ops"])
                for i, m in enumerate(b.mops):
                    if i in used or m.state not in states:
                        continue
                    if all(q.state == M.C for q in m.parents):
                        out.append((bi, i))
            return out

        def small_ram():
            return self.unit * (F(1, 2) if cfg["exact"] else F(513, 1000))

        if kind == "oversell_during_writeout":
            # needs more CPU than is free now, but no more than will be free once a write-out that ends in this very
            # tick has returned its allocation: the allocation is kept until the suspension has finished
            ro = ready_ops()
            taken = set((c["pl"], i) for c in asgs for i in c["ops"])
            ro = [x for x in ro if x not in taken]
            for p in pools:
                ending = [c for c in p.suspending if c.sus_left == 1]
                mine = [c for c in asgs if c["pool"] == p.pid]
                fc = p.av_cpu - sum(frac(c["cpu"]) for c in mine)
                fr = p.av_ram - sum(frac(c["ram"]) for c in mine)
                if not ending or not ro or fc + ending[0].cpu < 1:
                    continue
                want = fc + ending[0].cpu
                if want.denominator != 1 or want <= fc or want < 1:
                    continue
                ram = small_ram()
                if not cfg["over"] and ram > fr:
                    continue
                bi, i = ro[0]
                return cmds + [{"k": "asg", "id": self.label(), "pl": bi, "ops": [i], "cpu": fstr(want), "ram": fstr(ram),
                                "pool": p.pid, "fault": kind}]
            return None
        if kind in ("oversell_cpu", "oversell_ram"):
            ro = ready_ops()
            if len(ro) < 2:
                return None
            pid = r.randrange(len(pools))
            p = pools[pid]
            mine = [c for c in asgs if c["pool"] == pid]
            used_cpu = sum(frac(c["cpu"]) for c in mine)
            used_ram = sum(frac(c["ram"]) for c in mine)
            fc, fr = p.av_cpu - used_cpu, p.av_ram - used_ram
            taken = set((c["pl"], i) for c in asgs for i in c["ops"])
            ro = [x for x in ro if x not in taken][:2]
            if len(ro) < 2:
                return None
            if kind == "oversell_cpu":
                if fc < 1:
                    return None
                # each fits on its own, the sum does not
                c1 = max(F(1), F(int(fc)))
                c2 = F(1)
                if c1 + c2 <= fc or c1 > fc:
                    return None
                rams = [small_ram(), small_ram()]
                if not cfg["over"] and sum(rams) > fr:
                    return None
                cp = [c1, c2]
            else:
                if cfg["over"] or fr <= 0 or fc < 2:
                    return None
                cp = [F(1), F(1)]
                a = fr * F(5, 8) if cfg["exact"] else fr * F(617, 1000)
                rams = [a, a]
            out = list(cmds)
            forced = r.random() < 0.4      # "force_run" must not buy a way around the admission check
            for (bi, i), c, ram in zip(ro, cp, rams):
                out.append({"k": "asg", "id": self.label(), "pl": bi, "ops": [i], "cpu": fstr(c),
                            "ram": fstr(ram), "pool": pid, "fault": kind})
                if forced:
                    out[-1]["force"] = True
            return out
        if kind.startswith("sus_"):
            act = [(p, c) for p in pools for c in p.active]
            if kind == "sus_not_boundary":
                cand = [(p, c) for p, c in act if not c.can_suspend]
                if not cand:
                    return None
                p, c = r.choice(cand)
                return cmds + [{"k": "sus", "ref": c.label, "pool": p.pid, "fault": kind}]
            if kind == "sus_suspending":
                cand = [(p, c) for p in pools for c in p.suspending]
            elif kind == "sus_suspended":
                cand = [(p, c) for p in pools for c in p.suspended]
            elif kind == "sus_unknown":
                return cmds + [{"k": "sus", "ref": "nope", "pool": r.randrange(len(pools)), "fault": kind}]
            elif kind == "sus_other_pool":
                if len(pools) < 2:
                    return None
                cand = [(p, c) for p, c in act if c.can_suspend]
                if not cand:
                    return None
                p, c = r.choice(cand)
                other = r.choice([q.pid for q in pools if q.pid != p.pid])
                return [x for x in cmds if not (x["k"] == "sus" and x["ref"] == c.label)] + \
                       [{"k": "sus", "ref": c.label, "pool": other, "fault": kind}]
            elif kind == "sus_twice":
                cand = [(p, c) for p, c in act if c.can_suspend]
                if not cand:
                    return None
                p, c = r.choice(cand)
                base = [x for x in cmds if not (x["k"] == "sus" and x["ref"] == c.label)]
                s = {"k": "sus", "ref": c.label, "pool": p.pid, "fault": kind}
                return base + [s, dict(s)]
            if not cand:
                return None
            p, c = r.choice(cand)
            return cmds + [{"k": "sus", "ref": c.label, "pool": p.pid, "fault": kind}]
        if kind == "pool_range_asg":
            ro = ready_ops()
            taken = set((c["pl"], i) for c in asgs for i in c["ops"])
            ro = [x for x in ro if x not in taken]
            if not ro:
                return None
            bi, i = r.choice(ro)
            bad = r.choice([len(pools), len(pools) + 3, -1])
            return cmds + [{"k": "asg", "id": self.label(), "pl": bi, "ops": [i], "cpu": "1",
                            "ram": fstr(small_ram()), "pool": bad, "fault": kind}]
        if kind == "pool_range_sus":
            cand = [(p, c) for p in pools for c in p.active if c.can_suspend]
            bad = r.choice([len(pools), len(pools) + 2, -1])
            if cand:
                p, c = r.choice(cand)
                base = [x for x in cmds if not (x["k"] == "sus" and x["ref"] == c.label)]
                return base + [{"k": "sus", "ref": c.label, "pool": bad, "fault": kind}]
            return cmds + [{"k": "sus", "ref": "nope", "pool": bad, "fault": kind}]
        if kind in ("dep_pending_parent", "dep_order", "dep_late"):
            # a child whose parent is not completed (and is not going to complete first)
            cands = []
            for bi, b in enumerate(self.built):
                if b.at > t:
                    continue
                used = set(i for c in asgs if c["pl"] == bi for i in c["ops"])
                for i, m in enumerate(b.mops):
                    if i in used or m.state not in (M.P, M.FL) or not m.parents:
                        continue
                    pj = [b.mops.index(q) for q in m.parents if q.state in (M.P, M.FL) and b.mops.index(q) not in used]
                    if pj:
                        cands.append((bi, i, pj))
            if not cands:
                return None
            bi, i, pj = r.choice(cands)
            pid = r.randrange(len(pools))
            if av[pid][0] < 1:
                return None
            b = self.built[bi]
            if kind == "dep_pending_parent":
                ops = [i]
            elif kind == "dep_late":
                # an unrelated ready operator runs first; the child would start
                # when it finishes (legal only if the parent completed elsewhere by then)
                if not cfg["multi"]:
                    return None
                used = set(x for c in asgs if c["pl"] == bi for x in c["ops"])
                first = [x for x, m in enumerate(b.mops) if x != i and x not in used and x not in pj
                         and m.state in (M.P, M.FL) and all(q.state == M.C for q in m.parents)]
                if not first:
                    return None
                ops = [r.choice(first), i]
            else:
                if not cfg["multi"]:
                    return None
                j = r.choice(pj)
                if not all(q.state == M.C for q in b.mops[j].parents):
                    return None
                ops = [i, j]   # child listed before its parent
            ram = self.choose_ram([b.mops[x] for x in ops], F(1), av[pid][1], pools[pid])
            if ram is None:
                return None
            return cmds + [{"k": "asg", "id": self.label(), "pl": bi, "ops": ops, "cpu": "1",
                            "ram": fstr(ram), "pool": pid, "fault": kind}]
        if kind == "opcount":
            # several operators in one container although the pool runs single-operator containers
            if cfg["multi"]:
                return None
            taken = set((c["pl"], i) for c in asgs for i in c["ops"])
            for bi, b in enumerate(self.built):
                if b.at > t:
                    continue
                ro = [i for i, m in enumerate(b.mops) if (bi, i) not in taken and m.state in (M.P, M.FL)
                      and all(q.state == M.C for q in m.parents)]
                pid = r.randrange(len(pools))
                if len(ro) >= 2 and av[pid][0] >= 1:
                    ram = self.choose_ram([b.mops[x] for x in ro[:2]], F(1), av[pid][1], pools[pid])
                    if ram is None:
                        continue
                    return cmds + [{"k": "asg", "id": self.label(), "pl": bi, "ops": ro[:2], "cpu": "1", "ram": fstr(ram),
                                    "pool": pid, "fault": kind}]
            return None
        if kind.startswith("construct_"):
            ro = ready_ops()
            taken = set((c["pl"], i) for c in asgs for i in c["ops"])
            ro = [x for x in ro if x not in taken]
            pid = r.randrange(len(pools))
            base = {"k": "asg", "id": self.label(), "cpu": "1", "ram": fstr(small_ram()), "pool": pid, "fault": kind}
            if kind == "construct_completed":
                done = [(bi, i) for bi, b in enumerate(self.built) for i, m in enumerate(b.mops) if m.state == M.C]
                if not done:
                    return None
                bi, i = r.choice(done)
                extra = [x[1] for x in ro if x[0] == bi][:1] if cfg["multi"] and r.random() < 0.5 else []
                # (a suspended container's own list: finished operators first, then the rest)
                base.update(pl=bi, ops=([i] + extra) if r.random() < 0.5 else (extra + [i]))
            elif kind == "construct_suspending":
                live = [(bi, i) for bi, b in enumerate(self.built) for i, m in enumerate(b.mops) if m.state == M.SU]
                if not live:
                    return None
                bi, i = r.choice(live)
                base.update(pl=bi, ops=[i])
            elif kind == "construct_assigned":
                live = [(bi, i) for bi, b in enumerate(self.built) for i, m in enumerate(b.mops)
                        if m.state in (M.A, M.R, M.SU)]
                if not live:
                    return None
                bi, i = r.choice(live)
                base.update(pl=bi, ops=[i])
            elif kind == "construct_dup":
                if not ro or not cfg["multi"]:
                    return None
                bi, i = r.choice(ro)
                base.update(pl=bi, ops=[i, i])
            else:
                if not ro:
                    return None
                bi, i = r.choice(ro)
                base.update(pl=bi, ops=[i])
                if kind == "construct_cpu0":
                    base["cpu"] = r.choice(["0", "-1"])
                elif kind == "construct_ram0":
                    base["ram"] = r.choice(["0", "-2"])
                elif kind == "construct_empty":
                    base["ops"] = []
            if r.random() < 0.4:
                base["resume"] = True       # no flag buys a way around the constructor's checks
            if r.random() < 0.2:
                base["force"] = True
            return cmds + [base]
        return None


# ---------------------------------------------------------------------------
# the lock-step run
# ---------------------------------------------------------------------------
class Obs:
    def __init__(self):
        self.failed = {}     # pool id -> [MCont]
        self.real = {}       # label -> real Container

    def forced_mem(self, c):
        rc = self.real.get(c.label)
        if rc is None:
            return None
        if rc.is_completed():
            m = KILL_MEM.get(rc.container_id)
            return F(m) if isinstance(m, (int, float)) else None
        return F(rc.get_current_memory_usage())

    def pool_victims(self, pool):
        return self.failed.get(pool.pid, [])

    def was_killed(self, c, pool):
        return any(x is c for x in self.failed.get(pool.pid, []))

    def suspend_ticks(self, c):
        rc = self.real.get(c.label)
        d = getattr(rc, "suspend_ticks", None)
        return d if isinstance(d, int) else None


def snapshot(ex, built):
    pools = []
    for p in ex.pools:
        pools.append({
            "av_cpu": p.avail_cpu_pool, "av_ram": p.avail_ram_pool, "consumed": p.get_consumed_ram_gb(),
            "active": [c.container_id for c in p.active_containers],
            "suspending": [c.container_id for c in p.suspending_containers],
            "suspended": [c.container_id for c in p.suspended_containers],
        })
    states = [[o.state().value for o in b.rops] for b in built]
    return {"pools": pools, "states": states}


def invariants(ex, acct, tick):
    """Model-free invariants after an executor tick (C03, C04, C09)."""
    live = susd = 0
    for p in ex.pools:
        held = list(p.active_containers) + list(p.suspending_containers)
        cpu = sum(c.assignment.cpu for c in held)
        ram = sum(c.assignment.ram for c in held)
        sc = max(1.0, abs(p.max_cpu_pool))
        sr = max(1.0, abs(p.max_ram_pool))
        if abs(p.avail_cpu_pool + cpu - p.max_cpu_pool) > TOL * sc:
            raise Violation("C03.conservation.cpu", {"pool": p.pool_id, "free": p.avail_cpu_pool, "held": cpu, "capacity": p.max_cpu_pool}, tick)
        if abs(p.avail_ram_pool + ram - p.max_ram_pool) > TOL * max(sr, abs(ram)):
            raise Violation("C03.conservation.ram", {"pool": p.pool_id, "free": p.avail_ram_pool, "held": ram, "capacity": p.max_ram_pool}, tick)
        if p.avail_cpu_pool < -TOL * sc:
            raise Violation("C03.negative.cpu", {"pool": p.pool_id, "free": p.avail_cpu_pool}, tick)
        if p.avail_ram_pool < -TOL * sr and not p.allow_memory_overcommit:
            raise Violation("C03.negative.ram", {"pool": p.pool_id, "free": p.avail_ram_pool}, tick)
        use = 0.0
        for c in p.active_containers:
            u = c.get_current_memory_usage()
            use += u
            if u > c.assignment.ram * (1 + TOL) + 1e-12:
                raise Violation("C04.container_over", {"pool": p.pool_id, "container": c.container_id, "use": u, "alloc": c.assignment.ram}, tick)
            if c.is_completed():
                raise Violation("C09.ended_still_listed", {"pool": p.pool_id, "container": c.container_id}, tick)
        if abs(p.get_consumed_ram_gb() - use) > TOL * max(sr, use):
            raise Violation("C04.report", {"pool": p.pool_id, "reported": p.get_consumed_ram_gb(), "sum_of_running": use,
                                           "running": len(p.active_containers)}, tick)
        if use > p.max_ram_pool * (1 + TOL) + 1e-12:
            raise Violation("C04.pool_over", {"pool": p.pool_id, "use": use, "capacity": p.max_ram_pool}, tick)
        live += len(held)
        susd += len(p.suspended_containers)
    ids = [c.container_id for p in ex.pools for c in list(p.active_containers) + list(p.suspending_containers)]
    if len(set(ids)) != len(ids):
        # commands and results name containers by id: two live containers must never answer to the same one
        dup = sorted(i for i in set(ids) if ids.count(i) > 1)
        raise Violation("C09.live_id_shared", {"ids": dup[:5]}, tick)
    if acct["accepted"] != acct["ok"] + acct["fail"] + susd + live:
        raise Violation("C09.identity", dict(acct, suspended=susd, live=live), tick)


def check_results(res, tick):
    from eudoxia.workload import OperatorState as S
    for r in res:
        st = [o.state() for o in r.ops]
        if not r.failed():
            if any(s != S.COMPLETED for s in st):
                raise Violation("C09.success_incomplete", {"container": r.container_id, "states": [s.value for s in st]}, tick)
        else:
            if not r.error:
                raise Violation("C09.failure_no_error", {"container": r.container_id}, tick)
            k = 0
            while k < len(st) and st[k] == S.COMPLETED:
                k += 1
            if k == len(st) or any(s != S.FAILED for s in st[k:]):
                raise Violation("C09.failure_shape", {"container": r.container_id, "states": [s.value for s in st]}, tick)


REJECT_RULE = {"oversell": "C03.oversell_accepted", "suspend": "C10.reject.missing",
               "pool": "C09.pool_range.accepted", "dep": "C01.dep.accepted",
               "state": "C02.state.accepted", "opcount": "EX.opcount.accepted",
               "construct": "C02.construct.accepted"}


def run(scn, rng=None):
    """Execute one EX scenario.  Generate mode if scn has no 'script' (then rng is
    required and the script is recorded into scn).  Returns an outcome dict."""
    import_repo()
    install_transition_seam()
    KILL_MEM.clear()
    from eudoxia.executor import Executor
    from eudoxia.executor.assignment import Assignment, Suspend
    from eudoxia.executor.container import Container
    from eudoxia.utils import Priority

    cfg = scn["cfg"]
    tps = cfg["tps"]
    out = {"violation": None, "discard": None, "faults": {}, "probes": {}, "ticks": 0, "sig": None,
           "skipped": 0, "ended_by": "end"}
    log = EventLog()
    set_log(log)
    sig = []
    try:
        Container.next_container_num = scn.get("ids", {}).get("container_offset", 1)
        built = build_pipes(scn["pipes"], log)
        ex = Executor(num_pools=cfg["pools"], cpus_per_pool=cfg["cpus"], ram_gb_per_pool=float(cfg["ram"]),
                      ticks_per_second=tps, allow_memory_overcommit=cfg["over"],
                      multi_operator_containers=cfg["multi"])
        mex = M.MExec(cfg["pools"], cfg["cpus"], cfg["ram"], tps, cfg["over"], cfg["multi"], cfg["exact"])
        replay = "script" in scn
        chaos = None
        if not replay:
            chaos = Chaos(rng, cfg, scn["knobs"], built, mex, F(20, tps))
            scn["script"] = []
        lab = {}         # label -> MCont
        obs_rng = _random.Random(scn["observe"]) if scn.get("observe") is not None else None
        obs = Obs()
        acct = {"accepted": 0, "ok": 0, "fail": 0}
        prev = snapshot(ex, built)
        T = cfg["ticks"]
        idle_run = 0
        for t in range(T):
            log.tick = t
            out["ticks"] = t + 1
            if replay:
                cmds = scn["script"][t] if t < len(scn["script"]) else []
            else:
                cmds = chaos.decide(t, T)
                scn["script"].append(cmds)
            # ---- scheduler phase: build the command objects ------------------
            rsus, msus, rasg, masg = [], [], [], []
            sus_cmds = []
            asg_cmds = []
            tick_sig = []
            ended = False
            for cmd in cmds:
                fault = cmd.get("fault")
                if cmd["k"] == "sus":
                    mc = lab.get(cmd["ref"])
                    if not fault:
                        if mc is None or mc not in mex.pools[cmd["pool"]].active or not mc.can_suspend \
                                or any(x is mc for _, x in msus):
                            out["skipped"] += 1
                            continue
                    rc = obs.real.get(cmd["ref"])
                    rid = rc.container_id if rc is not None else "c-none"
                    rsus.append(Suspend(rid, cmd["pool"]))
                    msus.append((cmd["pool"], mc))
                    sus_cmds.append(cmd)
                    tick_sig.append("S!" + fault if fault else "S")
                    if fault:
                        out["faults"][fault] = out["faults"].get(fault, 0) + 1
                    continue
                # assignment
                b = built[cmd["pl"]] if 0 <= cmd["pl"] < len(built) else None
                if b is None:
                    out["skipped"] += 1
                    continue
                idxs = cmd["ops"]
                if any(i >= len(b.mops) for i in idxs):
                    out["skipped"] += 1
                    continue
                mops = [b.mops[i] for i in idxs]
                cpu, ram = frac(cmd["cpu"]), frac(cmd["ram"])
                if not fault:
                    okc = bool(mops) and cpu > 0 and ram > 0 and len(set(idxs)) == len(idxs) \
                        and 0 <= cmd["pool"] < cfg["pools"] and (cfg["multi"] or len(mops) == 1) and b.at <= t
                    for j, m in enumerate(mops):
                        if m.state not in (M.P, M.FL):
                            okc = False
                        for q in m.parents:
                            if q.state != M.C and q not in mops[:j]:
                                okc = False
                    if okc:
                        # keep the batch admissible
                        pid = cmd["pool"]
                        tc = sum(c.cpu for c in masg if c.pool == pid) + cpu
                        tr = sum(c.ram for c in masg if c.pool == pid) + ram
                        if tc > mex.pools[pid].av_cpu or (not cfg["over"] and tr > mex.pools[pid].av_ram):
                            okc = False
                    if not okc:
                        out["skipped"] += 1
                        continue
                else:
                    out["faults"][fault] = out["faults"].get(fault, 0) + 1
                # model: Assignment construction
                mrej = None
                if not mops:
                    mrej = "empty"
                elif cpu <= 0:
                    mrej = "cpu"
                elif ram <= 0:
                    mrej = "ram"
                else:
                    for m in mops:
                        if m.state not in (M.P, M.FL):
                            mrej = ("state", m.key)
                            break
                        m.state = M.A
                rexc = None
                try:
                    cpu_arg = int(cpu) if cpu.denominator == 1 else float(cpu)
                    kw = {}
                    if cmd.get("resume"):
                        # a resume names the suspended container whose work it continues (latest one of the pipeline)
                        old = [c for pl_ in ex.pools for c in pl_.suspended_containers
                               if c.assignment.pipeline_id == b.p.pipeline_id]
                        if old:
                            kw["container_id"] = old[-1].container_id
                            out["faults"]["resume_names_container"] = out["faults"].get("resume_names_container", 0) + 1
                    a = Assignment(ops=[b.rops[i] for i in idxs], cpu=cpu_arg, ram=float(ram),
                                   priority=Priority[b.prio], pool_id=cmd["pool"], pipeline_id=b.p.pipeline_id,
                                   is_resume=bool(cmd.get("resume")), force_run=bool(cmd.get("force")), **kw)
                except Exception as e:  # noqa: BLE001 - any refusal counts as a rejection
                    rexc = e
                if (mrej is None) != (rexc is None):
                    if rexc is None:
                        rule = "C10.assigned_during_writeout" if fault == "construct_suspending" else "C02.construct.accepted"
                        det = {"cmd": cmd, "model": str(mrej)}
                        if mrej in ("cpu", "ram"):
                            # a zero or negative size that gets in makes every sum the pool computes meaningless (a
                            # negative one masks an oversized neighbour in the batch): C03's business as well
                            det["also"] = [{"rule": "C03.nonpositive_size_accepted", "detail": {"cmd": cmd, "size": str(mrej)}}]
                        raise Violation(rule, det, t)
                    raise Violation("EX.crash", {"where": "Assignment()", "cmd": cmd, "exc": repr(rexc)[:200]}, t)
                if mrej is not None:
                    # the executor was never involved: the run goes on without this assignment (operators listed before
                    # the refused one stay ASSIGNED in model and implementation alike)
                    tick_sig.append("X:construct")
                    try:
                        _compare_states(built, t, "C02.refused_changed_state")
                    except Violation as v_:
                        # the same damage seen from C01's side: an operator that has started (or finished) must still have
                        # all its parents completed after the refusal
                        try:
                            check_snapshot([(bi_, b_.p) for bi_, b_ in enumerate(built)], t, "after a refused Assignment")
                        except Violation as v2:
                            v_.detail = dict(v_.detail, also=[{"rule": v2.rule, "detail": v2.detail}])
                        raise v_
                    _check_counts(built, t)
                    out["faults"]["continued_after_refused_assignment"] = out["faults"].get("continued_after_refused_assignment", 0) + 1
                    continue
                mc = M.MCont(cmd["id"], mops, cpu, ram, cmd["pool"], b.prio)
                lab[cmd["id"]] = mc
                masg.append(mc)
                rasg.append((cmd["id"], a))
                asg_cmds.append(cmd)
                tick_sig.append("A%d" % len(mops) + ("!" + fault if fault else ""))
            if ended:
                sig.append(tick_sig)
                break
            if scn.get("decoy_at") == t:
                # another simulation being set up in the same process must not disturb this executor
                Executor(num_pools=1, cpus_per_pool=1, ram_gb_per_pool=1, ticks_per_second=tps)
                out["faults"]["other_executor_constructed"] = 1
            if obs_rng is not None:
                nobs, eobs = observe(ex, [b.p for b in built if b.at <= t], obs_rng, assignments=[a for _, a in rasg])
                out["faults"]["bystander_reads"] = out["faults"].get("bystander_reads", 0) + nobs
                if eobs:
                    out["probes"]["bystander_read_raised"] = out["probes"].get("bystander_read_raised", 0) + eobs
            # ---- executor phase -------------------------------------------------
            stop = False
            for attempt in (0, 1):
                rexc = None
                res = None
                try:
                    res = ex.run_one_tick(rsus, [a for _, a in rasg])
                except Exception as e:  # noqa: BLE001
                    rexc = e
                if res is not None:
                    _map_new_containers(ex, res, rasg, obs, t)
                    obs.failed = {}
                    byid = {rc.container_id: l for l, rc in obs.real.items()}
                    for r_ in res:
                        if r_.failed():
                            l = byid.get(r_.container_id)
                            if l is not None:
                                obs.failed.setdefault(r_.pool_id, []).append(lab[l])
                mrej = None
                mres = None
                try:
                    mres = mex.step(msus, masg, obs if res is not None else M.NoObs())
                except M.Reject as rj:
                    mrej = rj
                if mrej is None:
                    break
                tick_sig.append("X:" + mrej.kind)
                if rexc is None:
                    raise Violation(REJECT_RULE[mrej.kind], {"kind": mrej.kind, "pool": mrej.pool, "info": str(mrej.info),
                                                            "cmds": cmds}, t)
                _after_reject(mrej, ex, built, prev, t)
                faulty = [i for i, cmd_ in enumerate(sus_cmds) if cmd_.get("fault")]
                if attempt == 0 and mrej.kind == "suspend" and mrej.pool == 0 and mrej.info != "twice" and faulty:
                    # A rejected suspension for the first pool aborts the tick before anything ran: the run goes on
                    # without that request, and whatever the rejection left behind shows up in the ticks that follow.
                    rsus = [x for i, x in enumerate(rsus) if i not in faulty]
                    msus = [x for i, x in enumerate(msus) if i not in faulty]
                    sus_cmds = [x for i, x in enumerate(sus_cmds) if i not in faulty]
                    tick_sig.append("R")
                    out["faults"]["continued_after_rejected_suspension"] = out["faults"].get("continued_after_rejected_suspension", 0) + 1
                    continue
                if attempt == 0 and mrej.kind == "pool":
                    # pool numbers are checked before any pool runs: the tick is repeated without the offending commands
                    bad_s = [i for i, c_ in enumerate(sus_cmds) if c_.get("fault")]
                    bad_a = [i for i, c_ in enumerate(asg_cmds) if c_.get("fault")]
                    if bad_s or bad_a:
                        rsus = [x for i, x in enumerate(rsus) if i not in bad_s]
                        msus = [x for i, x in enumerate(msus) if i not in bad_s]
                        sus_cmds = [x for i, x in enumerate(sus_cmds) if i not in bad_s]
                        rasg = [x for i, x in enumerate(rasg) if i not in bad_a]
                        masg = [x for i, x in enumerate(masg) if i not in bad_a]
                        asg_cmds = [x for i, x in enumerate(asg_cmds) if i not in bad_a]
                        tick_sig.append("R")
                        out["faults"]["continued_after_unknown_pool"] = out["faults"].get("continued_after_unknown_pool", 0) + 1
                        continue
                out["ended_by"] = "reject:" + mrej.kind
                stop = True
                break
            if stop:
                sig.append(tick_sig)
                break
            if rexc is not None:
                raise Violation("EX.crash", {"where": "Executor.run_one_tick", "exc": repr(rexc)[:300], "cmds": cmds}, t)
            # ---- compare --------------------------------------------------------
            acct["accepted"] += len(rasg)
            acct["ok"] += sum(1 for r_ in res if not r_.failed())
            acct["fail"] += sum(1 for r_ in res if r_.failed())
            byid = {rc.container_id: l for l, rc in obs.real.items()}
            # every oracle of the tick is evaluated; the first failure is raised, the others ride along in
            # detail["also"] so that a check can claim the rule that belongs to its property
            found = []

            def _results():
                got = [(byid.get(r_.container_id, r_.container_id), r_.failed()) for r_ in res]
                want = [(c.label, bool(c.error)) for c in mres]
                if got != want:
                    raise Violation("EX.results", {"got": got, "want": want}, t)
                for r_ in res:
                    mc = lab[byid[r_.container_id]]
                    if r_.pool_id != mc.pool or r_.cpu != (int(mc.cpu) if mc.cpu.denominator == 1 else float(mc.cpu)) \
                            or abs(r_.ram - float(mc.ram)) > TOL * max(1, float(mc.ram)):
                        raise Violation("C09.result_fields", {"container": r_.container_id}, t)

            def _logbad():
                if log.bad is not None:
                    raise log.bad
            checks = [_results, lambda: check_results(res, t), _logbad, lambda: invariants(ex, acct, t)]
            checks += [lambda k=k: _compare_pools(ex, mex, obs, t, k) for k in ("lists", "free", "mem")]
            # a long idle stretch (no command, nothing live, no result): the per-pipeline sweeps run on its first two
            # ticks and then on every 64th - what an idle tick might do to operator state is still looked at, but
            # 20 000 idle ticks before a 100-operator pipeline stay affordable
            idle = not cmds and not res and not any(p_.active_containers or p_.suspending_containers for p_ in ex.pools)
            idle_run = idle_run + 1 if idle else 0
            if idle_run <= 2 or idle_run % 64 == 0:
                checks += [lambda: _compare_states(built, t, "EX.states"), lambda: _check_counts(built, t),
                           lambda: _check_iteration_midrun(built, scn["pipes"], t),
                           lambda: _check_premature_completion(built, t), lambda: check_live(ex, t),
                           lambda: check_snapshot([(bi_, b_.p) for bi_, b_ in enumerate(built) if b_.at <= t], t),
                           lambda: check_orphans(ex, [(bi_, b_.p) for bi_, b_ in enumerate(built) if b_.at <= t], t)]
            for chk in checks:
                try:
                    chk()
                except Violation as v_:
                    found.append(v_)
            if found:
                first = found[0]
                first.detail = dict(first.detail, also=[{"rule": v_.rule, "detail": v_.detail} for v_ in found[1:]])
                raise first
            prev = snapshot(ex, built)
            for c in mres:
                tick_sig.append("F" if c.error else "K")
            for p in mex.pools:
                for c in p.suspended:
                    if c.sus_left == 0 and not getattr(c, "_sigged", False):
                        c._sigged = True
                        tick_sig.append("E")
            sig.append(tick_sig)
            # early stop: nothing left to do
            if replay is False and t > 5 and not any(p.active or p.suspending for p in mex.pools) \
                    and all(m.state in (M.C,) or (m.state == M.FL and not chaos.k["retry"]) for b in built for m in b.mops):
                cfg["ticks"] = t + 1      # recorded, so that a replay covers exactly the same ticks
                break
        pr = mex.probes()
        for k_, v in log.counts.items():
            pr["to_" + k_] = v
        pr["strict_cmp"] = mex.ar.strict
        out["probes"] = pr
    except Violation as v:
        v.tick = v.tick if v.tick is not None else out["ticks"] - 1
        out["violation"] = v.to_json()
        out["log_tail"] = [list(e) for e in log.events[-40:]]
    except Discard as d:
        out["discard"] = str(d)
    finally:
        set_log(None)
    out["sig"] = digest(sig)
    out["sim_s"] = out["ticks"] / tps
    out["nontrivial"] = any(any(x not in ("",) and x[0] in "SFXE" for x in ts) for ts in sig)
    return out


def _map_new_containers(ex, res, rasg, obs, t):
    """C09: exactly one new container per accepted assignment, in the pool named."""
    if not rasg:
        return
    live = {}
    for p in ex.pools:
        for c in list(p.active_containers) + list(p.suspending_containers):
            live.setdefault(id(c.assignment), []).append((p.pool_id, c))
    for l, a in rasg:
        hits = live.get(id(a), [])
        rh = [r_ for r_ in res if r_.ops is a.ops]
        if len(hits) + len(rh) != 1:
            raise Violation("C09.one_container", {"assignment": l, "live_containers": len(hits), "results": len(rh)}, t)
        if hits:
            pid, c = hits[0]
            if pid != a.pool_id:
                raise Violation("C09.wrong_pool", {"assignment": l, "pool": pid, "named": a.pool_id}, t)
            obs.real[l] = c
        else:
            if rh[0].pool_id != a.pool_id:
                raise Violation("C09.wrong_pool", {"assignment": l, "pool": rh[0].pool_id, "named": a.pool_id}, t)

            class _Gone:
                def __init__(s, cid):
                    s.container_id = cid

                def is_completed(s):
                    return True
            obs.real[l] = _Gone(rh[0].container_id)


def _compare_pools(ex, mex, obs, t, part=None):
    for p, mp in zip(ex.pools, mex.pools):
        sc = max(1.0, float(mp.cap_ram))
        if part in (None, "lists"):
            for name, rl, ml in (("active", p.active_containers, mp.active),
                                 ("suspending", p.suspending_containers, mp.suspending),
                                 ("suspended", p.suspended_containers, mp.suspended)):
                got = [c.container_id for c in rl]
                want = [obs.real[c.label].container_id for c in ml]
                if got != want:
                    raise Violation("EX.lists." + name, {"pool": p.pool_id, "got": got, "want": want}, t)
        if part in (None, "free"):
            if abs(p.avail_cpu_pool - float(mp.av_cpu)) > TOL * max(1.0, float(mp.cap_cpu)):
                raise Violation("C03.model.free_cpu", {"pool": p.pool_id, "got": p.avail_cpu_pool, "want": float(mp.av_cpu)}, t)
            if abs(p.avail_ram_pool - float(mp.av_ram)) > TOL * max(sc, abs(float(mp.av_ram))):
                raise Violation("C03.model.free_ram", {"pool": p.pool_id, "got": p.avail_ram_pool, "want": float(mp.av_ram)}, t)
        if part in (None, "mem"):
            if [c.container_id for c in p.active_containers] != [obs.real[c.label].container_id for c in mp.active]:
                continue
            tot = F(0)
            for rc, mc in zip(p.active_containers, mp.active):
                m = rc.get_current_memory_usage()
                if abs(m - float(mc.mem)) > TOL * max(1.0, float(mc.mem)):
                    raise Violation("C05.mem", {"container": rc.container_id, "got": m, "want": float(mc.mem)}, t)
                if bool(rc.can_suspend_container()) != mc.can_suspend:
                    raise Violation("C10.boundary_flag", {"container": rc.container_id, "got": bool(rc.can_suspend_container()), "want": mc.can_suspend}, t)
                tot += mc.mem
            if abs(p.get_consumed_ram_gb() - float(tot)) > TOL * max(sc, float(tot)):
                raise Violation("C04.report.model", {"pool": p.pool_id, "reported": p.get_consumed_ram_gb(), "want": float(tot)}, t)


def _check_iteration_midrun(built, pipes, t):
    """C01, iteration clause, while the pipeline is being executed: every operator once, parents first, and the
    parent lists are still the ones the pipeline was built with."""
    for bi, (b, pd) in enumerate(zip(built, pipes)):
        if (bi + t) % 3:
            continue
        idx = {id(o): i for i, o in enumerate(b.rops)}
        for i, o in enumerate(b.rops):
            if sorted(idx.get(id(q), -1) for q in o.parents) != sorted(pd["ops"][i].get("par", [])):
                raise Violation("C01.parents_changed", {"pipeline": bi, "op": i, "parents_now": [idx.get(id(q)) for q in o.parents],
                                                        "built_with": pd["ops"][i].get("par", [])}, t)
        seq = [idx.get(id(o)) for o in b.p.values]
        if sorted(x for x in seq if x is not None) != list(range(len(b.rops))) or len(seq) != len(b.rops):
            raise Violation("C01.iteration.not_a_permutation", {"pipeline": bi, "visited": seq, "when": "mid-run"}, t)
        pos = {o: k for k, o in enumerate(seq)}
        for i, od in enumerate(pd["ops"]):
            for q in od.get("par", []):
                if pos[q] > pos[i]:
                    raise Violation("C01.iteration.child_before_parent", {"pipeline": bi, "visited": seq, "child": i, "parent": q,
                                                                          "when": "mid-run"}, t)


def _compare_states(built, t, rule):
    for bi, b in enumerate(built):
        got = [o.state().value for o in b.rops]
        want = [m.state for m in b.mops]
        if got != want:
            raise Violation(rule, {"pipeline": bi, "got": got, "want": want}, t)


def check_live(ex, t, okey=None):
    """C02: an operator sits in at most one live container, and while it does it is ASSIGNED, RUNNING, SUSPENDING or
    (an earlier operator of the list) COMPLETED - never PENDING or FAILED."""
    from eudoxia.workload import OperatorState as S
    seen = {}
    for pl in ex.pools:
        for c in list(pl.active_containers) + list(pl.suspending_containers):
            for i, o in enumerate(c.operators):
                k = okey(o) if okey else i
                if id(o) in seen:
                    raise Violation("C02.two_live_containers", {"op": k, "containers": [seen[id(o)], c.container_id]}, t)
                seen[id(o)] = c.container_id
                if o.state() not in (S.ASSIGNED, S.RUNNING, S.SUSPENDING, S.COMPLETED):
                    raise Violation("C02.live_state", {"op": k, "state": o.state().value, "container": c.container_id}, t)


def check_snapshot(pipelines, t, when=None):
    """C01 at any instant: an operator that is RUNNING or COMPLETED has only COMPLETED parents."""
    for k, p in pipelines:
        st = p.runtime_status().operator_states
        for i, (o, s_) in enumerate(st.items()):
            if s_.value in ("running", "completed"):
                for q in o.parents:
                    if st[q].value != "completed":
                        raise Violation("C01.snapshot", {"pipeline": k, "op": i, "state": s_.value, "parent_state": st[q].value,
                                                         "when": when}, t)


def check_orphans(ex, pipelines, t, okey=None):
    """C02: RUNNING means 'in a running container', SUSPENDING means 'in a container that is writing out': an operator
    left in one of these states without such a container can never move again."""
    run_ops, sus_ops = set(), set()
    for pl in ex.pools:
        for c in pl.active_containers:
            run_ops.update(id(o) for o in c.operators)
        for c in pl.suspending_containers:
            sus_ops.update(id(o) for o in c.operators)
    for k, p in pipelines:
        for i, (o, st) in enumerate(p.runtime_status().operator_states.items()):
            v = st.value
            if (v == "running" and id(o) not in run_ops) or (v == "suspending" and id(o) not in sus_ops):
                raise Violation("C02.orphan_state", {"pipeline": k, "op": okey(o) if okey else i, "state": v,
                                                     "why": "no live container holds this operator"}, t)


def _check_premature_completion(built, t):
    """C01 is about work, not labels: an operator that reads COMPLETED while the work the time model gives it is still
    outstanding opens the gate for its children too early."""
    for bi, b in enumerate(built):
        for i, (o, m) in enumerate(zip(b.rops, b.mops)):
            if o.state().value == "completed" and m.state in (M.R, M.A) and any(m in c.parents for c in b.mops):
                raise Violation("C01.parent_completed_early", {"pipeline": bi, "op": i, "model_state": m.state,
                                                               "children": [j for j, c in enumerate(b.mops) if m in c.parents]}, t)


def _check_counts(built, t):
    from eudoxia.workload import OperatorState as S
    for bi, b in enumerate(built):
        rs = b.p.runtime_status()
        hist = {s: 0 for s in S}
        for o in b.rops:
            hist[rs.operator_states[o]] += 1
        if any(rs.state_counts[s] != hist[s] for s in S):
            raise Violation("C02.counts", {"pipeline": bi, "counts": {s.value: rs.state_counts[s] for s in S},
                                           "histogram": {s.value: hist[s] for s in S}}, t)


def _conservation_only(ex, t):
    """free + allocated = capacity must survive a rejected command too (C03: 'legal or not')"""
    for p in ex.pools:
        held = list(p.active_containers) + list(p.suspending_containers)
        cpu = sum(c.assignment.cpu for c in held)
        ram = sum(c.assignment.ram for c in held)
        if abs(p.avail_cpu_pool + cpu - p.max_cpu_pool) > TOL * max(1.0, abs(p.max_cpu_pool)):
            raise Violation("C03.conservation.cpu", {"pool": p.pool_id, "free": p.avail_cpu_pool, "held": cpu, "capacity": p.max_cpu_pool,
                                                     "after": "a rejected command"}, t)
        if abs(p.avail_ram_pool + ram - p.max_ram_pool) > TOL * max(1.0, abs(p.max_ram_pool), abs(ram)):
            raise Violation("C03.conservation.ram", {"pool": p.pool_id, "free": p.avail_ram_pool, "held": ram, "capacity": p.max_ram_pool,
                                                     "after": "a rejected command"}, t)


def _after_reject(rj, ex, built, prev, t):
    """What an inadmissible decision may leave behind."""
    _conservation_only(ex, t)
    if rj.kind == "suspend" and rj.info == "twice":
        return  # the first of the two requests is legitimate and may have been carried out
    if rj.kind in ("oversell", "suspend") and isinstance(rj.pool, int) and 0 <= rj.pool < len(ex.pools):
        p = ex.pools[rj.pool]
        pv = prev["pools"][rj.pool]
        now = {"active": [c.container_id for c in p.active_containers],
               "suspending": [c.container_id for c in p.suspending_containers],
               "suspended": [c.container_id for c in p.suspended_containers]}
        rule = "C03.oversell.partial" if rj.kind == "oversell" else "C10.reject.changed_state"
        if rj.kind == "oversell":
            # "rejected as a whole": no container of the batch exists afterwards
            # (a legitimate suspension issued in the same tick may have been applied)
            before = set(pv["active"]) | set(pv["suspending"]) | set(pv["suspended"])
            new = [c for k in now for c in now[k] if c not in before]
            if new:
                raise Violation(rule, {"pool": rj.pool, "new_containers": new}, t)
        else:
            for k in now:
                if now[k] != pv[k]:
                    raise Violation(rule, {"pool": rj.pool, "list": k, "before": pv[k], "after": now[k]}, t)
        if p.avail_cpu_pool < pv["av_cpu"] - TOL or p.avail_ram_pool < pv["av_ram"] - TOL * max(1, abs(pv["av_ram"])):
            raise Violation(rule, {"pool": rj.pool, "free_before": [pv["av_cpu"], pv["av_ram"]],
                                   "free_after": [p.avail_cpu_pool, p.avail_ram_pool]}, t)
        if rj.kind == "suspend" and (p.avail_cpu_pool != pv["av_cpu"] or abs(p.avail_ram_pool - pv["av_ram"]) > TOL * max(1, abs(pv["av_ram"]))):
            raise Violation(rule, {"pool": rj.pool, "free_before": [pv["av_cpu"], pv["av_ram"]],
                                   "free_after": [p.avail_cpu_pool, p.avail_ram_pool]}, t)
    if rj.kind == "dep" and rj.info is not None:
        bi, oi = rj.info
        st = built[bi].rops[oi].state().value
        if st in ("running", "completed"):
            raise Violation("C01.dep.executed", {"op": [bi, oi], "state": st}, t)


# ---------------------------------------------------------------------------
# solo container with Segment objects that the caller reuses across runs (C05)
# ---------------------------------------------------------------------------
def run_solo_reuse(scn):
    """The same Segment objects (templates kept by the caller) are put into fresh operators and run alone in a fresh
    Executor several times - other tick rate, other CPU count, other allocation each time.  Every run must follow the
    time and memory model for *its* parameters."""
    import_repo()
    from eudoxia.executor import Executor
    from eudoxia.executor.assignment import Assignment
    from eudoxia.workload import Pipeline
    from eudoxia.workload.pipeline import Segment
    from eudoxia.utils import Priority
    out = {"violation": None, "discard": None, "faults": {}, "probes": {}, "ticks": 0, "nontrivial": False, "sim_s": 0.0}
    sig = []
    try:
        templates = [[Segment(baseline_cpu_seconds=float(b), cpu_scaling=law, memory_gb=None if mem is None else float(mem),
                              storage_read_gb=float(read)) for (b, law, mem, read) in op] for op in scn["ops"]]
        for k, rn in enumerate(scn["runs"]):
            tps, cpu, ram = rn["tps"], frac(rn["cpu"]), frac(rn["ram"])
            mops = []
            for oi, op in enumerate(scn["ops"]):
                segs = [(frac(b), law, None if mem is None else frac(mem), frac(read)) for (b, law, mem, read) in op]
                mops.append(M.MOp((0, oi), segs, [mops[-1]] if mops else []))
            try:
                want = solo_outcome(mops, cpu, ram, tps, False)
            except Discard:
                out["probes"]["run_in_band"] = out["probes"].get("run_in_band", 0) + 1
                continue
            p = Pipeline("solo%d" % k, Priority.BATCH_PIPELINE)
            rops = []
            for segs in templates:
                o = p.new_operator([rops[-1]] if rops else None)
                for sg in segs:
                    o.add_segment(sg)                 # the very same Segment objects as in the previous runs
                rops.append(o)
            ex = Executor(num_pools=1, cpus_per_pool=max(1, int(cpu) + 1), ram_gb_per_pool=float(ram) * 2 + 1,
                          ticks_per_second=tps, multi_operator_containers=True)
            a = Assignment(ops=rops, cpu=int(cpu) if cpu.denominator == 1 else float(cpu), ram=float(ram),
                           priority=Priority.BATCH_PIPELINE, pool_id=0, pipeline_id=p.pipeline_id)
            res = ex.run_one_tick([], [a])
            t = 1
            while not res and t < want[1] + 50:
                res = ex.run_one_tick([], [])
                t += 1
            out["ticks"] += t
            out["sim_s"] += t / tps
            got = ("none", t) if not res else (("oom" if res[0].failed() else "ok"), t)
            sig.append(got[0])
            if got != want:
                raise Violation("C05.reused_segments", {"run": k, "tps": tps, "cpus": float(cpu), "ram": float(ram),
                                                        "outcome": list(got), "model": list(want),
                                                        "earlier_runs": scn["runs"][:k]}, t)
            if got[0] == "oom":
                out["nontrivial"] = True
        out["probes"]["solo_runs"] = len(scn["runs"])
    except Violation as v:
        out["violation"] = v.to_json()
    out["faults"] = {"segment_objects_reused_across_runs": len(scn["runs"])}
    out["sig"] = digest([scn["ops"], scn["runs"], sig])
    return out


def gen_solo_reuse(r):
    from .exgen import qty, LAWS_ALL
    ops = []
    base_tps = r.choice([2, 5, 10, 20])
    for _ in range(r.randint(1, 3)):
        segs = []
        for _ in range(r.choice([1, 1, 2])):
            b = qty(r, False, ("tiny", "small", "mid")) / base_tps
            read = qty(r, False, ("zero", "small", "mid")) * F(20, base_tps)
            mem = None if r.random() < 0.6 else fstr(qty(r, False, ("small", "mid")) * F(20, base_tps))
            segs.append([fstr(b), r.choice(LAWS_ALL), mem, fstr(read)])
        ops.append(segs)
    runs = []
    for _ in range(r.randint(2, 4)):
        runs.append({"tps": r.choice([1, 2, 3, 5, 10, 20, 50, 100]), "cpu": fstr(F(r.choice([1, 1, 2, 3, 4, 8]))),
                     "ram": fstr(F(r.choice([2, 5, 10, 40, 200])) + F(37, 1000))})
    if r.random() < 0.5:
        runs[1]["cpu"] = runs[0]["cpu"]          # same CPU count, other tick rate: a stale per-CPU cache would show
    return {"kind": "solo", "ops": ops, "runs": runs}
