import os
import sys


def main(argv):
    if not argv:
        print("usage: ./check Cnn [quick|thorough] | replay <file> | selftest <name>")
        return 2
    if argv[0] == "replay":
        from . import runner
        return runner.replay(argv[1], quiet="--quiet" in argv)
    if argv[0] == "selftest":
        from . import selftest
        return selftest.main(argv[1:])
    prop = argv[0].upper()
    tier = argv[1] if len(argv) > 1 else os.environ.get("VERIF_TIER", "quick")
    if tier not in ("quick", "thorough"):
        tier = "quick"
    from . import runner
    return runner.run_check(prop, tier)
