"""Batch runner: fork pool, per-run alarm, aggregation, minimisation, replay
files, known findings, evidence.  Exit codes: 0 held / 1 violation / 2 harness error."""
import copy
import importlib
import json
import os
import signal
import subprocess
import sys
import time
import traceback
from concurrent.futures import ProcessPoolExecutor
import multiprocessing as mp

from .common import VERIF_DIR, REPO, seed_from_env, sub_rng, jdump, jload, digest
from . import shrink as shrinker

WORKERS = int(os.environ.get("VERIF_WORKERS", "16"))
RUN_ALARM_S = 300


class RunTimeout(BaseException):
    """per-run alarm; a BaseException so that no `except Exception` inside a driver can mistake it for a crash of
    the code under test (that happened once: a slow pair of runs on a loaded machine surfaced as C07.log_differs)"""


def _alarm(signum, frame):
    raise RunTimeout()


def load_prop(prop):
    return importlib.import_module("vsim.props." + prop.lower())


def claim(mod, out):
    """If the first failing rule of a run belongs to another property but a rule that failed in the same tick belongs
    to this one, this property's rule becomes the reported one."""
    v = out.get("violation")
    if v and not mod.claims(v["rule"]):
        for a in (v.get("detail") or {}).get("also", []):
            if mod.claims(a["rule"]):
                out["violation"] = {"rule": a["rule"], "tick": v.get("tick"),
                                    "detail": dict(a["detail"], first_failing_rule=v["rule"])}
                break
    return out


def executor_of(mod):
    def run(scn, rng=None):
        if scn.get("kind") == "sequence":
            # several simulations in one process, in order: the verdict is that of the last one (a run must be a
            # function of its scenario alone; if it is not, the preceding runs are part of the schedule)
            for step in scn["steps"][:-1]:
                try:
                    mod.execute(copy.deepcopy(step), None)
                except Exception:  # noqa: BLE001 - only the state the earlier runs leave behind matters
                    pass
            return claim(mod, mod.execute(copy.deepcopy(scn["steps"][-1]), None))
        return claim(mod, mod.execute(scn, rng))
    return run


_PROC_HISTORY = []      # (family, idx) of every run this worker process has executed, in order


def with_history(mod, prop, seed, tier, v, rule, harness):
    """A violation that a run shows only after other runs of the same process: rebuild that history (the scenarios are
    functions of seed, family and index), find a short suffix of it after which the violating scenario fails again
    IN A FRESH INTERPRETER (this process is no longer clean), and return a 'sequence' scenario.  None if no suffix does."""
    hist = v.get("history") or []
    scn = v["scenario"]
    tmp = os.path.join(VERIF_DIR, "replays", prop, "candidate-%d.json" % os.getpid())

    def fresh(seq):
        jdump({"property": prop, "seed": seed, "family": v["family"], "index": v["idx"], "rule": rule,
               "violation": v["violation"], "scenario": seq}, tmp)
        try:
            return confirm_replay(tmp)[0]
        finally:
            if os.path.exists(tmp):
                os.remove(tmp)
    built = {}

    def step_of(fam, idx):
        if (fam, idx) not in built:
            try:
                built[(fam, idx)] = one_run(mod, fam, seed, idx, tier)[0]
            except Exception:  # noqa: BLE001
                built[(fam, idx)] = None
        return built[(fam, idx)]
    for n in (1, 2, 4, 8, 16, 32, 64, 128, 300):
        if n > len(hist) * 2 and n > 1:
            break
        steps = [s_ for s_ in (step_of(f, i) for f, i in hist[-n:]) if s_ is not None]
        seq = {"kind": "sequence", "steps": steps + [scn], "_family": v["family"]}
        if not fresh(seq):
            continue
        # drop what is not needed: halves first, then single steps (each candidate judged in a fresh interpreter)
        tries = 0
        size = (len(seq["steps"]) - 1) // 2
        while size >= 1 and tries < 24:
            k = 0
            while k + size <= len(seq["steps"]) - 1 and tries < 24:
                cand = dict(seq, steps=seq["steps"][:k] + seq["steps"][k + size:])
                tries += 1
                if fresh(cand):
                    seq = cand
                else:
                    k += size
            size //= 2
        got = dict(v["violation"], detail=dict(v["violation"].get("detail") or {}, depends_on_preceding_runs=len(seq["steps"]) - 1))
        return seq, got
    return None


def one_run(mod, family, seed, idx, tier):
    """Generate + execute run idx of a family.  Returns (scenario, outcome)."""
    rng = sub_rng(seed, mod.PROP, family, idx)
    scn = mod.make(family, rng, tier)
    scn["_family"] = family
    out = claim(mod, mod.execute(scn, rng))
    return scn, out


def _work(args):
    prop, family, seed, lo, hi, tier = args
    mod = load_prop(prop)
    res = []
    signal.signal(signal.SIGALRM, _alarm)
    for idx in range(lo, hi):
        t0 = time.time()
        hist = _PROC_HISTORY[-300:]
        _PROC_HISTORY.append((family, idx))
        try:
            signal.alarm(RUN_ALARM_S)
            scn, out = one_run(mod, family, seed, idx, tier)
            signal.alarm(0)
        except RunTimeout:
            res.append({"idx": idx, "harness_error": "run exceeded %ds" % RUN_ALARM_S, "timeout": True})
            continue
        except Exception:  # noqa: BLE001
            signal.alarm(0)
            res.append({"idx": idx, "harness_error": traceback.format_exc()[-1500:]})
            continue
        rec = {"idx": idx, "sig": out.get("sig"), "nontrivial": bool(out.get("nontrivial")),
               "ticks": out.get("ticks", 0), "sim_s": out.get("sim_s", 0), "discard": out.get("discard"),
               "faults": out.get("faults", {}), "probes": out.get("probes", {}),
               "ended_by": out.get("ended_by"), "dt": time.time() - t0}
        v = out.get("violation")
        if v:
            rec["violation"] = v
            rec["scenario"] = scn
            rec["history"] = hist
            rec["log_tail"] = out.get("log_tail")
        elif idx < lo + 1 and not out.get("discard"):
            rec["sample"] = mod.sample(scn, out) if hasattr(mod, "sample") else scn
        res.append(rec)
    return res


def known_findings():
    p = os.path.join(VERIF_DIR, "known_findings.json")
    if not os.path.exists(p):
        return []
    return jload(p).get("findings", [])


def match_known(mod, prop, viol, scn):
    """A violation is a known finding only if a committed `known` entry's whole
    predicate matches the (minimised) violation."""
    facts = {"rule": viol["rule"]}
    facts.update({k: v for k, v in (viol.get("detail") or {}).items() if isinstance(v, (str, int, float, bool))})
    if hasattr(mod, "facts"):
        facts.update(mod.facts(scn, viol))
    for e in known_findings():
        if e.get("status") != "known" or e.get("property") != prop:
            continue
        m = e.get("match", {})
        if all(facts.get(k) == v for k, v in m.items()):
            return e
    return None


def run_check(prop, tier):
    t0 = time.time()
    seed = seed_from_env()
    mod = load_prop(prop)
    plan = mod.plan(tier)
    scale = float(os.environ.get("VERIF_SCALE", "1") or 1)
    if scale != 1:
        plan = [(f, max(1, int(n * scale))) for f, n in plan]
    agg = {"evaluations": 0, "discarded": 0, "ticks": 0, "faults": {}, "probes": {}, "ended_by": {},
           "by_family": {}}
    sigs = set()
    all_sigs = []
    samples = []
    violations = []
    harness = []
    ctx = mp.get_context("fork")
    tasks = []
    for family, n in plan:
        chunk = max(1, min(200, n // (WORKERS * 4) or 1))
        for lo in range(0, n, chunk):
            tasks.append((prop, family, seed, lo, min(n, lo + chunk), tier))
    wall_cap = getattr(mod, "WALL_CAP", {"quick": 900, "thorough": 7200})[tier]
    with ProcessPoolExecutor(max_workers=WORKERS, mp_context=ctx) as pool:
        futs = [pool.submit(_work, t) for t in tasks]
        for fut, task in zip(futs, tasks):
            left = wall_cap - (time.time() - t0)
            try:
                res = fut.result(timeout=max(1, left))
            except Exception as e:  # noqa: BLE001
                harness.append("worker failed on %s: %r" % (task[1:5], e))
                continue
            fam = agg["by_family"].setdefault(task[1], {"runs": 0, "violations": 0, "discarded": 0})
            for rec in res:
                if "harness_error" in rec:
                    if rec.get("timeout") and getattr(mod, "TIMEOUT_IS_VIOLATION", False):
                        violations.append({"idx": rec["idx"], "family": task[1], "violation":
                                           {"rule": prop + ".hang", "tick": None, "detail": {}}, "scenario": None})
                    else:
                        harness.append("run %s/%d: %s" % (task[1], rec["idx"], rec["harness_error"]))
                    continue
                agg["evaluations"] += 1
                fam["runs"] += 1
                agg["ticks"] += rec["ticks"]
                agg["sim_s"] = agg.get("sim_s", 0) + rec.get("sim_s", 0)
                if rec["discard"]:
                    agg["discarded"] += 1
                    fam["discarded"] += 1
                for k, v in rec["faults"].items():
                    agg["faults"][k] = agg["faults"].get(k, 0) + v
                for k, v in rec["probes"].items():
                    agg["probes"][k] = agg["probes"].get(k, 0) + v
                if rec.get("ended_by"):
                    agg["ended_by"][rec["ended_by"]] = agg["ended_by"].get(rec["ended_by"], 0) + 1
                all_sigs.append((task[1], rec["idx"], rec["sig"], (rec.get("violation") or {}).get("rule")))
                if rec["nontrivial"] and not rec["discard"] and rec["sig"]:
                    sigs.add((task[1], rec["sig"]))
                if "sample" in rec and len(samples) < 4:
                    samples.append(rec["sample"])
                if "violation" in rec:
                    fam["violations"] += 1
                    if mod.claims(rec["violation"]["rule"]):
                        violations.append({"idx": rec["idx"], "family": task[1], "violation": rec["violation"],
                                           "scenario": rec["scenario"], "log_tail": rec.get("log_tail"),
                                           "history": rec.get("history")})
                    else:
                        agg.setdefault("other_property_rules", {})
                        r_ = rec["violation"]["rule"]
                        agg["other_property_rules"][r_] = agg["other_property_rules"].get(r_, 0) + 1
    extra = {}
    if hasattr(mod, "extra"):
        try:
            extra = mod.extra(tier, seed) or {}
            for v in extra.pop("violations", []):
                violations.append(v)
        except Exception:  # noqa: BLE001
            harness.append("extra(): " + traceback.format_exc()[-1500:])

    # ---- violations: minimise, write replay, confirm in a fresh interpreter ----
    reported = []
    known_hits = {}
    by_rule = {}
    for v in sorted(violations, key=lambda x: (x["family"], x["idx"])):
        by_rule.setdefault(v["violation"]["rule"], []).append(v)
    rdir = os.path.join(VERIF_DIR, "replays", prop)
    os.makedirs(rdir, exist_ok=True)
    for f in os.listdir(rdir):
        if f.endswith(".json"):
            os.remove(os.path.join(rdir, f))
    for rule, vs in sorted(by_rule.items()):
        confirmed_new = 0
        confirmed_known = set()
        tried = 0
        for v in vs:
            if confirmed_new >= 1 or tried >= 6:
                break
            scn = v["scenario"]
            viol = v["violation"]
            # a run whose un-minimised violation already matches a known finding
            # that has been confirmed (minimised + replayed) in this batch is counted, not re-minimised
            k0 = match_known(mod, prop, viol, scn) if scn is not None else None
            if k0 is not None and k0["id"] in confirmed_known:
                known_hits[k0["id"]] = (k0, known_hits[k0["id"]][1] + 1)
                continue
            tried += 1
            used = 0
            if scn is not None:
                scn = mod.prepare_replay(scn, viol) if hasattr(mod, "prepare_replay") else scn
                try:
                    chk = executor_of(mod)(copy.deepcopy(scn), None)
                    if chk.get("violation") and chk["violation"]["rule"] == rule:
                        scn, used = shrinker.shrink(scn, rule, lambda s: executor_of(mod)(s, None),
                                                    budget=getattr(mod, "SHRINK_BUDGET", 500),
                                                    extra_candidates=getattr(mod, "shrink_candidates", None))
                        again = executor_of(mod)(copy.deepcopy(scn), None).get("violation")
                        if again and again["rule"] == rule:
                            viol = again
                        # (else: the defect depends on process history; the fresh-interpreter replay below decides)
                    else:
                        hs = with_history(mod, prop, seed, tier, v, rule, harness)
                        if hs is None:
                            harness.append("in-process replay of %s/%d did not reproduce %s (got %s), nor did it after the "
                                           "runs that preceded it in its worker" % (v["family"], v["idx"], rule, chk.get("violation")))
                            continue
                        scn, viol = hs
                except Exception:  # noqa: BLE001
                    harness.append("replay/shrink: " + traceback.format_exc()[-1500:])
                    continue
            path = os.path.join(VERIF_DIR, "replays", prop, "%d-%s-%d-%s.json" % (
                seed, v["family"], v["idx"], rule.replace("/", "_")))
            jdump({"property": prop, "seed": seed, "family": v["family"], "index": v["idx"], "rule": rule,
                   "violation": viol, "scenario": scn, "shrink_executions": used,
                   "log_tail": v.get("log_tail")}, path)
            if scn is not None:
                ok, msg = confirm_replay(path)
                if not ok and scn.get("kind") != "sequence":
                    # reproduced here but not in a fresh interpreter: this process's own earlier runs mattered
                    hs = with_history(mod, prop, seed, tier, v, rule, harness)
                    if hs is not None:
                        scn, viol = hs
                        jdump({"property": prop, "seed": seed, "family": v["family"], "index": v["idx"], "rule": rule,
                               "violation": viol, "scenario": scn, "shrink_executions": used,
                               "log_tail": v.get("log_tail")}, path)
                        ok, msg = confirm_replay(path)
                if not ok:
                    harness.append("fresh-interpreter replay of %s did not reproduce: %s" % (path, msg))
                    continue
            k = match_known(mod, prop, viol, scn)
            if k is not None:
                confirmed_known.add(k["id"])
                known_hits.setdefault(k["id"], (k, 0))
                known_hits[k["id"]] = (k, known_hits[k["id"]][1] + 1)
                continue
            confirmed_new += 1
            reported.append((rule, path, len(vs)))
    for kid, (k, n) in sorted(known_hits.items()):
        print("KNOWN-FINDING: property=%s %s [%s]" % (prop, k["what"], kid))
    for rule, path, n in reported:
        print("VIOLATION property=%s replay=%s rule=%s runs_failing=%d" % (prop, path, rule, n))

    # ---- evidence ---------------------------------------------------------------
    wall = time.time() - t0
    cov = {
        "evaluations": agg["evaluations"],
        "distinct_nontrivial": len(sigs),
        "rule": getattr(mod, "RULE_TEXT", ""),
        "samples": samples[:3] or [{"note": "no sample recorded"}],
        "discarded_in_ambiguity_band": agg["discarded"],
        "simulated_ticks": agg["ticks"],
        "simulated_seconds": round(agg.get("sim_s", 0), 3),
        "runs_per_hour": int(agg["evaluations"] / wall * 3600) if wall > 0 else 0,
        "fault_kinds_fired": agg["faults"],
        "reach_probes": agg["probes"],
        "run_endings": agg["ended_by"],
        "by_family": agg["by_family"],
        "probes_at_zero": [k for k in getattr(mod, "WANT_PROBES", []) if not (agg["probes"].get(k) or agg["faults"].get(k))],
        "violating_runs_by_rule": {r: len(v) for r, v in by_rule.items()},
        "known_finding_hits": {k: n for k, (_, n) in known_hits.items()},
        "components": getattr(mod, "COMPONENTS", {}),
        "fault_kinds_not_applicable": ["crash/restart", "message loss/duplication/reordering", "clock skew",
                                       "disk errors (eudoxia keeps no durable state and reads no clock)"],
        "workers": WORKERS,
        "batch_digest": digest(sorted(all_sigs, key=lambda x: (x[0], x[1]))),
        "repo": REPO,
    }
    if "other_property_rules" in agg:
        cov["rules_of_other_properties_seen"] = agg["other_property_rules"]
    cov.update(extra)
    ev = {"property_id": prop, "tier": tier, "seed": seed, "level": getattr(mod, "LEVEL", "exploration"),
          "coverage": cov, "assumptions": getattr(mod, "ASSUMPTIONS", []), "wall_s": round(wall, 2),
          "violations": len(reported)}
    os.makedirs(os.path.join(VERIF_DIR, "evidence"), exist_ok=True)
    jdump(ev, os.path.join(VERIF_DIR, "evidence", prop + ".json"))
    for h in harness[:10]:
        print("HARNESS-ERROR property=%s %s" % (prop, h.replace("\n", " | ")[:1200]))
    print("%s %s seed=%d runs=%d distinct_nontrivial=%d discarded=%d wall=%.1fs violations=%d known=%d" % (
        prop, tier, seed, agg["evaluations"], len(sigs), agg["discarded"], wall, len(reported), len(known_hits)))
    if reported:
        return 1
    if harness:
        return 2
    if agg["evaluations"] == 0 and not extra:
        print("HARNESS-ERROR property=%s nothing was executed" % prop)
        return 2
    return 0


def confirm_replay(path):
    env = dict(os.environ)
    env["PYTHONHASHSEED"] = "0"
    try:
        p = subprocess.run([os.path.join(VERIF_DIR, "check"), "replay", path, "--quiet"],
                           capture_output=True, text=True, timeout=300, env=env, cwd=VERIF_DIR)
    except subprocess.TimeoutExpired:
        return False, "timeout"
    if p.returncode == 1 and "REPRODUCED" in p.stdout:
        return True, ""
    return False, (p.stdout + p.stderr)[-400:]


def replay(path, quiet=False):
    rp = jload(path)
    mod = load_prop(rp["property"])
    if rp.get("scenario") is None:
        print("replay file has no scenario (hang report)")
        return 2
    out = executor_of(mod)(copy.deepcopy(rp["scenario"]), None)
    v = out.get("violation")
    if v and v["rule"] == rp["rule"]:
        print("REPRODUCED rule=%s tick=%s" % (v["rule"], v.get("tick")))
        if not quiet:
            print(json.dumps(v, indent=1, default=str))
            print("VIOLATION property=%s replay=%s" % (rp["property"], path))
        return 1
    print("NOT-REPRODUCED wanted=%s got=%s discard=%s" % (rp["rule"], v, out.get("discard")))
    return 0
