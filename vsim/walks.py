"""C02 part A: request histories on the operator state machine, and the C01
DAG-iteration sweep.  Small finite spaces; both are swept completely."""
import itertools

from .common import Violation, import_repo, digest

STATES = ("pending", "assigned", "running", "suspending", "completed", "failed")
TABLE = {
    "pending": ("assigned",),
    "assigned": ("running", "suspending", "failed"),
    "running": ("completed", "failed"),
    "suspending": ("pending",),
    "completed": (),
    "failed": ("assigned",),
}


def all_shapes(n):
    """all insertion-ordered DAGs on n nodes: node i chooses any subset of 0..i-1 as parents"""
    per = [[list(c) for k in range(i + 1) for c in itertools.combinations(range(i), k)] for i in range(n)]
    for combo in itertools.product(*per):
        yield [list(x) for x in combo]


def model_legal(vec, par, op, target):
    if target not in TABLE[vec[op]]:
        return False
    if target == "running":
        return all(vec[q] == "completed" for q in par[op])
    return True


def model_next(vec, par, op, target):
    if model_legal(vec, par, op, target):
        v = list(vec)
        v[op] = target
        return tuple(v)
    return tuple(vec)


def build(par):
    import_repo()
    from eudoxia.workload import Pipeline
    from eudoxia.workload.pipeline import Segment
    from eudoxia.utils import Priority
    p = Pipeline("w", Priority.BATCH_PIPELINE)
    ops = []
    for pi in par:
        o = p.new_operator([ops[j] for j in pi] or None)
        o.add_segment(Segment(baseline_cpu_seconds=1, cpu_scaling="const", storage_read_gb=1))
        ops.append(o)
    p.runtime_status()
    return p, ops


def observe(p, ops):
    from eudoxia.workload import OperatorState as S
    rs = p.runtime_status()
    return ([rs.operator_states[o].value for o in ops], {s.value: rs.state_counts[s] for s in S},
            rs.is_pipeline_successful())


def request(p, ops, par, vec, op, target, tick=None, dep=False):
    """Apply one request to the real pipeline and check it against the table.
    Returns the new model vector.  "?state" only asks (check_transition), as a polling scheduler does."""
    from eudoxia.workload import OperatorState as S
    before = observe(p, ops)
    if before[0] != list(vec):
        raise Violation("C02.walk.state", {"got": before[0], "want": list(vec)}, tick)
    if target in ("!arrive", "!finish"):
        # the simulator's own bookkeeping calls on the same object (write-once ticks): they change no operator state
        # and nothing about which requests are legal afterwards
        rs_ = p.runtime_status()
        try:
            (rs_.record_arrival if target == "!arrive" else rs_.record_finish)(tick or 0)
        except AssertionError:
            pass                # recorded before: write-once
        if observe(p, ops) != before:
            raise Violation("C02.walk.bookkeeping_changed_state", {"par": par, "state": list(vec), "call": target}, tick)
        return tuple(vec)
    if isinstance(target, str) and target.startswith("?"):
        target = target[1:]
        want = model_legal(vec, par, op, target)
        try:
            got = p.runtime_status().check_transition(ops[op], S(target))[0]
        except Exception as e:  # noqa: BLE001
            raise Violation("C02.walk.query_raised", {"par": par, "state": list(vec), "op": op, "target": target, "exc": repr(e)[:120]}, tick)
        if bool(got) != want:
            deps = target == "running" and target in TABLE[vec[op]]
            raise Violation("C01.walk.query_ignores_parents" if deps and dep else "C02.walk.query_wrong",
                            {"par": par, "state": list(vec), "op": op, "target": target, "answer": bool(got), "want": want}, tick)
        if observe(p, ops) != before:
            raise Violation("C02.walk.query_changed_state", {"par": par, "state": list(vec), "op": op, "target": target}, tick)
        return tuple(vec)
    by_value = isinstance(target, str) and target.startswith("=")
    if by_value:
        target = target[1:]
    legal = model_legal(vec, par, op, target) and not by_value     # a state named by a bare string is no valid request
    raised = None
    try:
        ops[op].transition(target if by_value else S(target))
    except Exception as e:  # noqa: BLE001
        raised = e
    after = observe(p, ops)
    if legal and raised is not None:
        raise Violation("C02.walk.legal_refused", {"par": par, "state": list(vec), "op": op, "target": target,
                                                   "exc": repr(raised)[:120]}, tick)
    if not legal and raised is None and dep and not by_value and target == "running" and target in TABLE[vec[op]]:
        raise Violation("C01.walk.started_before_parents", {"par": par, "state": list(vec), "op": op,
                                                            "unfinished_parents": [q for q in par[op] if vec[q] != "completed"]}, tick)
    if not legal and raised is None:
        raise Violation("C02.walk.illegal_accepted", {"par": par, "state": list(vec), "op": op, "target": target,
                                                      "now": after[0]}, tick)
    if not legal:
        if after != before:
            raise Violation("C02.walk.refused_changed_state", {"par": par, "state": list(vec), "op": op, "target": target,
                                                               "before": [before[0], before[1]], "after": [after[0], after[1]]}, tick)
        return tuple(vec)
    new = list(vec)
    new[op] = target
    hist = {s: 0 for s in STATES}
    for s in new:
        hist[s] += 1
    if after[0] != new or after[1] != hist or after[2] != all(s == "completed" for s in new):
        raise Violation("C02.walk.wrong_result", {"par": par, "state": list(vec), "op": op, "target": target,
                                                  "got": [after[0], after[1], after[2]], "want": [new, hist]}, tick)
    return tuple(new)


def run_walk(scn):
    """scn: {"par": [[..]..], "requests": [[op, target], ...]}"""
    out = {"violation": None, "discard": None, "faults": {}, "probes": {}, "ticks": 0, "nontrivial": False}
    par = scn["par"]
    p, ops = build(par)
    vec = tuple("pending" for _ in par)
    sig = []
    refused = 0
    try:
        for k, (op, target) in enumerate(scn["requests"]):
            legal = model_legal(vec, par, op, target) if not str(target).startswith(("=", "!")) else False
            if str(target).startswith("!"):
                legal = True
                out["probes"]["bookkeeping_call"] = out["probes"].get("bookkeeping_call", 0) + 1
            elif str(target).startswith("?"):
                legal = True
                out["probes"]["polled"] = out["probes"].get("polled", 0) + 1
            elif target == "running" and not legal and target in TABLE[vec[op]]:
                out["probes"]["start_refused_for_parents"] = out["probes"].get("start_refused_for_parents", 0) + 1
            vec = request(p, ops, par, vec, op, target, tick=k, dep=bool(scn.get("dep")))
            sig.append((op, target, legal))
            if not legal:
                refused += 1
            out["ticks"] = k + 1
    except Violation as v:
        out["violation"] = v.to_json()
    out["faults"] = {"illegal_request": refused}
    out["nontrivial"] = refused > 0
    out["sig"] = digest([par, sig])
    return out


def gen_walk(r):
    n = r.choice([1, 2, 2, 3, 3, 3])
    par = r.choice(list(all_shapes(n)))
    reqs = []
    vec = ["pending"] * n
    p_legal = r.choice([0.3, 0.6, 0.85])
    for _ in range(r.randint(30, 200)):
        op = r.randrange(n)
        if r.random() < p_legal:
            # bias towards requests that make progress, so deep states are reached
            cands = [(o, t) for o in range(n) for t in STATES if model_legal(vec, par, o, t)]
            if cands:
                op, target = r.choice(cands)
            else:
                target = r.choice(STATES)
        else:
            target = r.choice(STATES)
        if r.random() < 0.04:
            reqs.append([op, "=" + target])       # target given as the bare value string
            continue
        if r.random() < 0.05:
            reqs.append([op, "?" + target])       # only asked, as a polling scheduler does
            continue
        if r.random() < 0.03 or (all(v == "completed" for v in vec) and r.random() < 0.3):
            # the main loop records arrival and finish on the same status object; requests keep coming afterwards
            reqs.append([op, "!finish" if all(v == "completed" for v in vec) else "!arrive"])
            continue
        if model_legal(vec, par, op, target):
            vec[op] = target
        reqs.append([op, target])
    return {"kind": "walk", "par": par, "requests": reqs}


def gen_depwalk(r):
    """C01: request histories on DAGs with several parents per operator, biased towards starting (and asking whether
    one may start) operators whose parents are in every mix of states - repeatedly, while the parents finish one by one
    in any order, fail and are retried."""
    from .exgen import dag_parents
    n = r.choice([3, 3, 4, 4, 5, 6])
    shape = r.choice(["fanin", "fanin", "diamond", "random", "random", "multiroot"])
    if r.random() < 0.12:
        # many parents per operator (a sink behind 11-40 roots, or a dense DAG): every one of them counts
        n = r.choice([12, 13, 18, 34, 41])
        shape = r.choice(["fanin", "fanin", "dense"])
    par = dag_parents(r, n, shape) if shape != "dense" else [[j for j in range(i) if r.random() < 0.9] for i in range(n)]
    reqs = []
    vec = ["pending"] * n
    p_start = r.choice([0.2, 0.4, 0.6])
    for _ in range(r.randint(30, 160) if n < 10 else r.randint(8 * n, 16 * n)):
        waiting = [o for o in range(n) if vec[o] == "assigned"]
        if waiting and r.random() < p_start:
            op = r.choice(waiting)
            target = "running"
            if r.random() < 0.4:
                reqs.append([op, "?running"])
                continue
        else:
            cands = [(o, t) for o in range(n) for t in STATES if model_legal(vec, par, o, t)]
            if cands and r.random() < 0.85:
                # parents out of insertion order, failures and retries included
                op, target = r.choice(cands)
            else:
                op, target = r.randrange(n), r.choice(STATES)
        if model_legal(vec, par, op, target):
            vec[op] = target
        reqs.append([op, target])
    return {"kind": "walk", "dep": True, "par": par, "requests": reqs}


def sweep_state_machine():
    """Every reachable (state vector, op, target) triple of every DAG on 1..3
    operators, reached by replaying a shortest request path on a fresh pipeline."""
    triples = 0
    refused = 0
    shapes = 0
    violations = []
    for n in (1, 2, 3):
        for par in all_shapes(n):
            shapes += 1
            start = tuple("pending" for _ in range(n))
            path = {start: []}
            frontier = [start]
            while frontier:
                nxt = []
                for vec in frontier:
                    for op in range(n):
                        for target in STATES:
                            if model_legal(vec, par, op, target):
                                new = list(vec)
                                new[op] = target
                                new = tuple(new)
                                if new not in path:
                                    path[new] = path[vec] + [(op, target)]
                                    nxt.append(new)
                frontier = nxt
            for vec, pth in path.items():
                for op in range(n):
                    for target in STATES:
                        p, ops = build(par)
                        cur = start
                        try:
                            for (o, t) in pth:
                                cur = request(p, ops, par, cur, o, t)
                            request(p, ops, par, cur, op, target)
                            request(p, ops, par, model_next(cur, par, op, target), op, "=" + target)
                        except Violation as v:
                            if len(violations) < 3:
                                violations.append({"idx": triples, "family": "sweep", "violation": v.to_json(),
                                                   "scenario": {"kind": "walk", "par": par,
                                                                "requests": [list(x) for x in pth] + [[op, target]]}})
                        triples += 1
                        if not model_legal(vec, par, op, target):
                            refused += 1
    return {"shapes": shapes, "triples": triples, "illegal_triples": refused, "violations": violations}


# ---------------------------------------------------------------------------
def _check_order(par, ops, order, when):
    idx = {id(o): i for i, o in enumerate(ops)}
    seq = [idx.get(id(o)) for o in order]
    if sorted(x for x in seq if x is not None) != list(range(len(ops))) or len(seq) != len(ops):
        raise Violation("C01.iteration.not_a_permutation", {"par": par[:len(ops)], "visited": seq, "when": when})
    pos = {o: k for k, o in enumerate(seq)}
    for i, pi in enumerate(par[:len(ops)]):
        for q in pi:
            if pos[q] > pos[i]:
                raise Violation("C01.iteration.child_before_parent", {"par": par[:len(ops)], "visited": seq, "child": i,
                                                                      "parent": q, "when": when})
    return seq


def check_iteration(par):
    """list(pipeline.values) visits every operator once, parents first - after every insertion (every prefix of
    the construction history is itself a DAG; an iteration must not be disturbed by earlier iterations), and twice
    in a row at the end."""
    import_repo()
    from eudoxia.workload import Pipeline
    from eudoxia.utils import Priority
    p = Pipeline("w", Priority.BATCH_PIPELINE)
    ops = []
    scratch = []
    for k, pi in enumerate(par):
        if pi and (k + len(par)) % 2:
            scratch[:] = [ops[j] for j in pi]          # parents handed over in a list the caller reuses afterwards
            ops.append(p.new_operator(scratch))
            scratch[:] = []
        else:
            ops.append(p.new_operator([ops[j] for j in pi] or None))
        _check_order(par, ops, list(p.values), "after adding node %d" % k)
    _check_order(par, ops, list(p.values), "second iteration")
    it = iter(p.values)
    next(it)
    _check_order(par, ops, list(p.values), "while another iterator is open")
    # two iterators advanced in lock step: neither may disturb the other
    a, b = iter(p.values), iter(p.values)
    sa, sb = [], []
    for _ in range(len(ops) + 1):
        for itx, acc in ((a, sa), (b, sb)):
            try:
                acc.append(next(itx))
            except StopIteration:
                pass
    _check_order(par, ops, sa, "first of two interleaved iterators")
    _check_order(par, ops, sb, "second of two interleaved iterators")
    # nested loops
    outer = []
    for o in p.values:
        outer.append(o)
        _check_order(par, ops, list(p.values), "inner loop of a nested iteration")
    _check_order(par, ops, outer, "outer loop of a nested iteration")
    # a loop over a freshly built pipeline whose body asks for operator state (creates the runtime status lazily,
    # which walks the DAG itself)
    p2 = Pipeline("w2", Priority.BATCH_PIPELINE)
    ops2 = []
    for pi in par:
        ops2.append(p2.new_operator([ops2[j] for j in pi] or None))
    seen = []
    for o in p2.values:
        o.state()
        seen.append(o)
    return _check_order(par, ops2, seen, "loop whose body reads operator state for the first time")


def sweep_dags(max_n=6):
    n_dags = 0
    violations = []
    for n in range(1, max_n + 1):
        for par in all_shapes(n):
            n_dags += 1
            try:
                check_iteration(par)
            except Violation as v:
                if len(violations) < 3:
                    violations.append({"idx": n_dags, "family": "dagsweep", "violation": v.to_json(),
                                       "scenario": {"kind": "dag", "par": par}})
    return {"dags": n_dags, "max_nodes": max_n, "violations": violations}


def run_dag(scn):
    out = {"violation": None, "discard": None, "faults": {}, "probes": {}, "ticks": 0, "nontrivial": True}
    try:
        check_iteration(scn["par"])
    except Violation as v:
        out["violation"] = v.to_json()
    out["sig"] = digest(scn["par"])
    return out
