"""SYS driver: the real run_simulator with three recording seams (workload,
scheduler wrapper registered through the public decorators, Executor subclass)
plus the transition log.  None of the seams changes behaviour.  DESIGN 2.1."""
import importlib
import os
import sys
import tempfile
import uuid as _uuid_mod
import random as _random

from .common import Violation, Discard, import_repo, digest
from . import exdrv
from .exdrv import EventLog, TOL

REC = None
_registered = set()
SHIPPED = ("naive", "priority", "priority-pool", "overbook")


class Rec:
    def __init__(self, scn):
        self.scn = scn
        self.cfg = scn["cfg"]
        self.algo = scn["cfg"]["algo"]
        self.tick = -1
        self.pipes = []          # real pipelines in arrival order
        self.open = []
        self.pkey = {}           # pipeline_id -> index in arrival order
        self.arrival = {}        # pipeline_id -> (tick, order)
        self.parents0 = {}       # id(op) -> ids of its parents when the pipeline arrived
        self.true_par = {}       # id(op) -> parent operators as the scenario declared them (scenario workloads only)
        self.arr_tick = {}       # id(pipeline) -> arrival tick (ids may legitimately recur once a pipeline has finished)
        self.rounds = []
        self.tick_results = []   # per executor tick: list of results
        self.executor = None
        self.log = EventLog()
        self.canon = []          # canonical tick-by-tick log (C07)
        self.cids = {}
        self.cid_count = {}
        self.acct = {"accepted": 0, "ok": 0, "fail": 0}
        self.n_sus = 0
        self.oracles = []        # objects with on_round / on_tick / on_end
        self.probes = {}
        self.sig = []
        self.keep_rounds = True
        self.emitted = []        # per tick: list of pipeline ids emitted by the workload
        self.op_index = {}       # id(op) -> (pipeline order, op order)
        self.hold = []           # keeps every object whose id() is used as a key alive
        self.declared_differs = None
        self.deferred = None
        self.obs_rng = _random.Random(scn["observe"]) if scn.get("observe") is not None else None
        self.internal = False    # True: run_simulator builds its own WorkloadGenerator; the scheduler wrapper keeps the clock

    def probe(self, k, n=1):
        self.probes[k] = self.probes.get(k, 0) + n

    def open_pipes(self):
        """(arrival index, pipeline) of every pipeline the simulator has not recorded as finished - the per-tick
        checks look at these only, so long runs with 100 000 pipelines stay linear"""
        self.open = [(k, p) for k, p in self.open if p.runtime_status().finish_tick is None]
        return self.open

    def cid(self, kind, x):
        k = (kind, x)
        if k not in self.cids:
            n = self.cid_count.get(kind, 0)
            self.cid_count[kind] = n + 1
            self.cids[k] = "%s%d" % (kind, n)
        return self.cids[k]

    def note_arrivals(self, pipelines):
        for p in pipelines:
            self.pkey[p.pipeline_id] = len(self.pipes)
            self.open.append((len(self.pipes), p))
            self.pipes.append(p)
            self.arrival[p.pipeline_id] = (self.tick, len(self.pipes))
            self.arr_tick[id(p)] = self.tick
            for oi, op in enumerate(p.values):
                self.parents0[id(op)] = tuple(id(q) for q in op.parents)
                tp = self.true_par.get(id(op))
                if tp is not None and sorted(id(q) for q in tp) != sorted(id(q) for q in op.parents):
                    # what the pipeline records differs from what was declared when it was built
                    self.declared_differs = {"pipeline": p.pipeline_id, "op": oi, "declared": len(tp), "recorded": len(op.parents)}
                self.op_index[id(op)] = (len(self.pipes) - 1, oi)
                self.log.register(op, (len(self.pipes) - 1, oi))
                self.hold.append(op)

    def okey(self, op):
        return self.op_index.get(id(op))


# ---------------------------------------------------------------------------
# seam 1: workload
# ---------------------------------------------------------------------------
SEGMENT_CACHE = {}      # (baseline, law, memory, read) -> Segment object shared between simulations (scn["share_segments"])


def make_scn_workload(scn, rec):
    import_repo()
    from eudoxia.workload.workload import Workload
    from eudoxia.workload import Pipeline
    from eudoxia.workload.pipeline import Segment
    from eudoxia.utils import Priority

    class ScnWorkload(Workload):
        def __init__(self):
            self.t = 0
            self.rr = _random.Random(scn.get("reuse_seed", 0))
            self.by_tick = {}
            for k, pd in enumerate(scn["pipes"]):
                self.by_tick.setdefault(pd.get("at", 0), []).append((k, pd))

        def run_one_tick(self):
            out = []
            for k, pd in self.by_tick.get(self.t, []):
                pid = pd.get("id", "p%d" % k)
                if scn.get("reuse_ids") and self.rr.random() < 0.4:
                    # a recurring job: the id of a pipeline of the same priority that has already finished
                    # (gap 1: may come back in the very tick after its predecessor finished; gap 2: only after the
                    # scheduler has been handed the predecessor's last result - see DESIGN 0.3 on recurring ids)
                    gap = scn.get("reuse_gap", 1)
                    lastfin = {}
                    for q in rec.pipes:
                        ft_ = q.runtime_status().finish_tick
                        lastfin[q.pipeline_id] = None if (ft_ is None or lastfin.get(q.pipeline_id, 0) is None) \
                            else max(ft_, lastfin.get(q.pipeline_id, 0))
                    done = []
                    for q in rec.pipes:
                        lf = lastfin[q.pipeline_id]
                        if lf is not None and lf <= self.t - gap and q.pipeline_id not in done \
                                and (q.priority.name == pd["prio"] or scn.get("reuse_any_class")):
                            done.append(q.pipeline_id)
                    done = [x for x in done if x not in [q.pipeline_id for q in out]]     # not twice within one tick
                    if done:
                        pid = self.rr.choice(done)
                        if self.rr.random() < 0.5:
                            # the job that finished last comes back first (possibly in the very next tick)
                            ft = {q.pipeline_id: q.runtime_status().finish_tick for q in rec.pipes if q.pipeline_id in done}
                            pid = max(done, key=lambda x: ft[x])
                        rec.probe("pipeline_id_reused")
                p = Pipeline(pid, Priority[pd["prio"]])
                rops = []
                scratch = []
                for od in pd["ops"]:
                    if pd.get("scratch_parents") and od.get("par") and len(rops) % 2:
                        op = p.new_operator(rops[j] for j in od["par"])
                    elif pd.get("scratch_parents") and od.get("par"):
                        scratch[:] = [rops[j] for j in od["par"]]
                        op = p.new_operator(scratch)
                        scratch[:] = []
                    else:
                        op = p.new_operator([rops[j] for j in od.get("par", [])] or None)
                    for (b, law, mem, read) in od["segs"]:
                        if od.get("law_as_callable"):
                            law = Segment.SCALING_FUNCS[law]      # the public API also takes the law's function
                        if scn.get("share_segments"):
                            # segment prototypes kept by the caller and used for the pipelines of several simulations
                            ck = (b, str(law), mem, read)
                            if ck not in SEGMENT_CACHE:
                                SEGMENT_CACHE[ck] = Segment(baseline_cpu_seconds=float(b), cpu_scaling=law,
                                                            memory_gb=None if mem is None else float(mem),
                                                            storage_read_gb=float(read))
                            else:
                                rec.probe("segment_object_from_earlier_simulation")
                            op.add_segment(SEGMENT_CACHE[ck])
                            continue
                        op.add_segment(Segment(baseline_cpu_seconds=float(b), cpu_scaling=law,
                                               memory_gb=None if mem is None else float(mem),
                                               storage_read_gb=float(read)))
                    rec.true_par[id(op)] = [rops[j] for j in od.get("par", [])]
                    rops.append(op)
                out.append(p)
            rec.tick = self.t
            rec.log.tick = self.t
            rec.note_arrivals(out)
            rec.emitted.append([p.pipeline_id for p in out])
            self.t += 1
            return out
    return ScnWorkload()


def wrap_workload(inner, rec):
    """Recording wrapper around any real Workload (generator or trace)."""
    import_repo()
    from eudoxia.workload.workload import Workload

    class RecWorkload(Workload):
        def __init__(self):
            self.t = 0

        def run_one_tick(self):
            out = inner.run_one_tick()
            rec.tick = self.t
            rec.log.tick = self.t
            rec.note_arrivals(out)
            rec.emitted.append([p.pipeline_id for p in out])
            self.t += 1
            return out
    return RecWorkload()


# ---------------------------------------------------------------------------
# seam 2: scheduler wrapper, registered through the public decorators
# ---------------------------------------------------------------------------
def ready_ops(p, states):
    """ready = every parent completed; parents as the scenario declared them where known (what the operators record
    themselves is part of what is under test)"""
    st = p.runtime_status().operator_states
    from eudoxia.workload import OperatorState as S
    tp = REC.true_par if REC is not None else {}
    return [o for o, s in st.items() if s.value in states and all(st[q] == S.COMPLETED for q in tp.get(id(o), o.parents))]


class _Default(dict):
    def __init__(self, factory, data):
        super().__init__(data)
        self.factory = factory

    def __missing__(self, key):
        return self.factory()


def ensure_wrapper(algo):
    import_repo()
    key = "verif:" + algo
    if key in _registered:
        return key
    from eudoxia.scheduler.decorators import register_scheduler, register_scheduler_init, INIT_ALGOS, SCHEDULING_ALGOS
    from eudoxia.workload import OperatorState as S

    @register_scheduler_init(key=key)
    def init(s):
        INIT_ALGOS[algo](s)

    @register_scheduler(key=key)
    def step(s, results, pipelines):
        R = REC
        ex = s.executor
        if R.internal:
            R.tick += 1
            R.log.tick = R.tick
            R.note_arrivals(pipelines)
            R.emitted.append([p.pipeline_id for p in pipelines])
        rd = {"tick": R.tick, "results": list(results), "new": list(pipelines)}
        rd["pre"] = [(pl.avail_cpu_pool, pl.avail_ram_pool) for pl in ex.pools]
        # what is really free: capacity minus what the live containers hold (the pool's own counters are under test too)
        rd["pre_true"] = [(pl.max_cpu_pool - sum(c.assignment.cpu for c in list(pl.active_containers) + list(pl.suspending_containers)),
                           pl.max_ram_pool - sum(c.assignment.ram for c in list(pl.active_containers) + list(pl.suspending_containers)))
                          for pl in ex.pools]
        # (finished pipelines have no failed and no ready operators: the defaults stand for them)
        rd["pre_failed"] = _Default(int, {p.pipeline_id: p.runtime_status().state_counts[S.FAILED] for _, p in R.open_pipes()})
        rd["pre_ready"] = _Default(set, {p.pipeline_id: set(id(o) for o in ready_ops(p, ("pending", "failed"))) for _, p in R.open})
        rd["cansusp"] = {c.container_id: (c.can_suspend_container(), c.priority, pl.pool_id)
                         for pl in ex.pools for c in pl.active_containers}
        if R.obs_rng is not None and R.obs_rng.random() < 0.5:
            n_, e_ = exdrv.observe(ex, [p for _, p in R.open], R.obs_rng, results=results)
            R.probe("bystander_reads", n_)
        sus, asg = SCHEDULING_ALGOS[algo](s, results, pipelines)
        rd["sus"], rd["asg"] = list(sus), list(asg)
        if R.keep_rounds:
            R.rounds.append(rd)
        R.canon.append(("new", [_canon_pipeline(R, p) for p in pipelines]))
        R.canon.append(("sus", [(R.cid("c", x.container_id), x.pool_id) for x in sus]))
        R.canon.append(("asg", [([R.okey(o) for o in a.ops], a.cpu, a.ram, a.pool_id, a.priority.name) for a in asg]))
        R.n_sus += len(sus)
        for o in R.oracles:
            if hasattr(o, "on_round"):
                o.on_round(R, s, rd)
        return sus, asg

    _registered.add(key)
    return key


def _canon_pipeline(R, p):
    return (R.pkey.get(p.pipeline_id), p.priority.name,
            [([R.okey(q) for q in o.parents],
              [(g.baseline_cpu_seconds, g.storage_read_gb, g.memory_gb) for g in o.get_segments()])
             for o in p.values])


# ---------------------------------------------------------------------------
# seam 3: Executor subclass
# ---------------------------------------------------------------------------
_RecEx = None


def rec_executor_class():
    global _RecEx
    if _RecEx is not None:
        return _RecEx
    import_repo()
    from eudoxia.executor import Executor

    class RecExecutor(Executor):
        def __init__(self, *a, **kw):
            if REC is not None and REC.scn.get("executor_permissive"):
                # the single-operator flag is given to the scheduler only; the executor keeps its default (it would
                # accept multi-operator containers) - a scheduler told to use single-operator containers must still do so
                kw.pop("multi_operator_containers", None)
            super().__init__(*a, **kw)
            if REC is not None:
                REC.executor = self

        def run_one_tick(self, suspensions, assignments):
            R = REC
            if R is None:
                return super().run_one_tick(suspensions, assignments)
            if R.obs_rng is not None:
                n_, e_ = exdrv.observe(self, [p for _, p in R.open_pipes()], R.obs_rng, assignments=assignments)
                R.probe("bystander_reads", n_)
                if e_:
                    R.probe("bystander_read_raised", e_)
            if R.scn.get("decoy_at") == R.tick:
                # another simulation being set up in the same process (two runs stepped side by side) must not disturb
                # this one: process-wide counters and registries are shared
                Executor(num_pools=1, cpus_per_pool=1, ram_gb_per_pool=1, ticks_per_second=R.scn["cfg"]["tps"])
                R.probe("other_executor_constructed")
            res = super().run_one_tick(suspensions, assignments)
            t = R.tick
            R.acct["accepted"] += len(assignments)
            R.acct["ok"] += sum(1 for r in res if not r.failed())
            R.acct["fail"] += sum(1 for r in res if r.failed())
            R.tick_results.append(res)
            R.canon.append(("res", [(R.cid("c", r.container_id), r.error, r.pool_id, [R.okey(o) for o in r.ops])
                                    for r in res]))
            ts = []
            ts += ["A"] * len(assignments) + ["S"] * len(suspensions)
            ts += ["F" if r.failed() else "K" for r in res]
            R.sig.append(ts)
            if suspensions:
                R.probe("suspension", len(suspensions))
            for r in res:
                R.probe("fail" if r.failed() else "success")
            # evaluate every oracle of the tick; raise the first failure, the others ride along in detail["also"]
            found = []

            def _logbad():
                if R.log.bad is not None:
                    raise R.log.bad
            checks = [_logbad, lambda: exdrv.check_results(res, t), lambda: exdrv.invariants(self, R.acct, t),
                      lambda: _sys_tick_checks(R, self, t)]
            for o in R.oracles:
                if hasattr(o, "on_tick"):
                    checks.append(lambda o=o: o.on_tick(R, self, suspensions, assignments, res))
            for chk in checks:
                try:
                    chk()
                except Violation as v_:
                    found.append(v_)
            defer = tuple(R.scn.get("defer") or ())
            if defer:
                # a check aimed at a policy property lets the snapshot rules of neighbouring properties ride along: the
                # run goes on so that its own oracles see what the defect does next; raised at the end if nothing else fired
                for v_ in found:
                    if v_.rule.startswith(defer) and R.deferred is None:
                        v_.tick = v_.tick if v_.tick is not None else t
                        R.deferred = v_
                found = [v_ for v_ in found if not v_.rule.startswith(defer)]
            if found:
                first = found[0]
                first.detail = dict(first.detail, also=[{"rule": v_.rule, "detail": v_.detail} for v_ in found[1:]])
                raise first
            return res

    _RecEx = RecExecutor
    return _RecEx


def _sys_tick_checks(R, ex, t):
    """C01/C02 snapshot rules under the real schedulers."""
    from eudoxia.workload import OperatorState as S
    exdrv.check_live(ex, t, okey=R.okey)
    if R.declared_differs is not None:
        raise Violation("C01.parents_changed", dict(R.declared_differs, when="on arrival"), t)
    exdrv.check_orphans(ex, R.open_pipes(), t, okey=R.okey)
    for k, p in R.open_pipes():
        rs = p.runtime_status()
        if (k + t) % 4 == 0:
            seen_ops = []
            for o in p.values:
                if tuple(id(q) for q in o.parents) != R.parents0.get(id(o)):
                    raise Violation("C01.parents_changed", {"op": R.okey(o), "when": "mid-run"}, t)
                if any(id(q) not in seen_ops for q in o.parents) or id(o) in seen_ops:
                    raise Violation("C01.iteration.child_before_parent", {"op": R.okey(o), "when": "mid-run"}, t)
                seen_ops.append(id(o))
            if len(seen_ops) != len(rs.operator_states):
                raise Violation("C01.iteration.not_a_permutation", {"pipeline": p.pipeline_id, "visited": len(seen_ops),
                                                                    "operators": len(rs.operator_states), "when": "mid-run"}, t)
        st = rs.operator_states
        hist = {}
        for o, s in st.items():
            hist[s] = hist.get(s, 0) + 1
            if s in (S.RUNNING, S.COMPLETED):
                for q in o.parents:
                    if st[q] != S.COMPLETED:
                        raise Violation("C01.snapshot", {"op": R.okey(o), "state": s.value, "parent": R.okey(q),
                                                         "parent_state": st[q].value}, t)
            sh = R.log.shadow.get(id(o))
            if sh is not None and sh != s.value:
                raise Violation("C02.bypass", {"op": R.okey(o), "state": s.value, "log_state": sh}, t)
        for s in S:
            if rs.state_counts[s] != hist.get(s, 0):
                raise Violation("C02.counts", {"pipeline": p.pipeline_id, "state": s.value,
                                               "count": rs.state_counts[s], "histogram": hist.get(s, 0)}, t)


# ---------------------------------------------------------------------------
# template scheduler written by the real init_command
# ---------------------------------------------------------------------------
_template_key = None


def ensure_template():
    """`eudoxia init -s NAME` writes NAME.py; import it from a temporary directory."""
    global _template_key
    if _template_key is not None:
        return _template_key
    import_repo()
    import contextlib
    import io
    from eudoxia.__main__ import init_command
    d = tempfile.mkdtemp(prefix="verif_tpl_")
    name = "veriftpl"
    with contextlib.redirect_stdout(io.StringIO()):
        init_command(os.path.join(d, "params.toml"), force=True, scheduler_name=name)
    sys.path.insert(0, d)
    try:
        importlib.import_module(name)
    finally:
        sys.path.remove(d)
    import shutil
    shutil.rmtree(d, ignore_errors=True)
    _template_key = name
    return name


# ---------------------------------------------------------------------------
# uuid seam (C07): identifiers drawn from a seeded stream
# ---------------------------------------------------------------------------
class SeededUUID:
    UUID = _uuid_mod.UUID

    def __init__(self, seed, mode=None):
        self.r = _random.Random(seed)
        self.mode = mode
        self.fixed = self.r.getrandbits(128)

    def uuid4(self):
        x = self.r.getrandbits(128)
        if self.mode == "shared_prefix":
            # any values: identifiers that agree in their first 48 bits (all drawn in one burst from a time-based
            # source would) and differ further down
            x = (self.fixed >> 80 << 80) | (x & ((1 << 80) - 1))
        elif self.mode == "shared_suffix":
            x = (x >> 48 << 48) | (self.fixed & ((1 << 48) - 1))
        return _uuid_mod.UUID(int=x, version=4)


def set_uuid_stream(seed, mode=None):
    import_repo()
    import eudoxia.utils.dag as dag
    dag.uuid = _uuid_mod if seed is None else SeededUUID(seed, mode)


# ---------------------------------------------------------------------------
# run
# ---------------------------------------------------------------------------
def params_of(cfg, algo_key):
    p = dict(duration=cfg["duration"], ticks_per_second=float(cfg["tps"]) if cfg.get("tps_float") else cfg["tps"],
             scheduler_algo=algo_key,
             num_pools=cfg["pools"], cpus_per_pool=cfg["cpus"], ram_gb_per_pool=cfg["ram"],
             multi_operator_containers=cfg["multi"], allow_memory_overcommit=cfg["over"])
    for k in ("waiting_seconds_mean", "num_pipelines", "num_operators", "interactive_prob", "query_prob",
              "batch_prob", "cpu_io_ratio", "random_seed", "rest_poll_interval", "rest_scheduler_addr"):
        if k in cfg:
            p[k] = cfg[k]
    return p


def run(scn, oracles=(), workload_factory=None, keep_rounds=True):
    """Run one SYS scenario.  Returns (outcome, rec, stats|None)."""
    global REC
    import_repo()
    exdrv.install_transition_seam()
    exdrv.KILL_MEM.clear()
    import eudoxia.simulator as simmod
    from eudoxia.executor.container import Container
    cfg = scn["cfg"]
    algo = cfg["algo"]
    if algo == "chaos":
        ensure_chaos_scheduler()
        key = ensure_wrapper("verifchaos")
    elif algo == "template":
        key = ensure_wrapper(ensure_template())
    elif algo.startswith("raw:"):
        key = algo[4:]
    else:
        key = ensure_wrapper(algo)
    rec = Rec(scn)
    rec.keep_rounds = keep_rounds
    rec.oracles = list(oracles)
    REC = rec
    exdrv.set_log(rec.log)
    saved_ex = simmod.Executor
    simmod.Executor = rec_executor_class()
    ids = scn.get("ids") or {}
    Container.next_container_num = ids.get("container_offset", 1)
    if "uuid_seed" in ids:
        set_uuid_stream(ids["uuid_seed"], ids.get("uuid_mode"))
    out = {"violation": None, "discard": None, "faults": {}, "probes": {}, "ticks": 0, "sig": None,
           "nontrivial": False, "ended_by": "end"}
    stats = None
    tmpd = None
    try:
        if workload_factory == "internal":
            rec.internal = True
            wl = None
        elif workload_factory is not None:
            wl = workload_factory(rec)
        elif "pipes" in scn:
            wl = make_scn_workload(scn, rec)
        else:
            from eudoxia.workload import WorkloadGenerator
            from eudoxia.simulator import parse_args_with_defaults
            wl = wrap_workload(WorkloadGenerator(**parse_args_with_defaults(params_of(cfg, key))), rec)
        params = params_of(cfg, key)
        tmpd = None
        if scn.get("params_as_file"):
            # the documented other way in: a TOML parameter file (same values; repr() of a float round-trips exactly)
            import tempfile
            tmpd = tempfile.mkdtemp(prefix="verif_params_")
            pf = os.path.join(tmpd, "params.toml")
            with open(pf, "w") as f:
                for k_, v_ in params.items():
                    lit = ("true" if v_ else "false") if isinstance(v_, bool) else ('"%s"' % v_ if isinstance(v_, str) else repr(v_))
                    f.write("%s = %s\n" % (k_, lit))
            params = pf
            rec.probe("params_from_toml_file")
        try:
            stats = simmod.run_simulator(params, workload=wl)
        except Violation:
            raise
        except Discard:
            raise
        except Exception as e:  # noqa: BLE001
            import traceback
            tb = traceback.extract_tb(e.__traceback__)
            where = "%s:%s" % (os.path.basename(tb[-1].filename), tb[-1].name) if tb else "?"
            rec.crash = e
            det = {"algo": algo, "exc": type(e).__name__, "msg": str(e)[:160], "where": where, "multi": cfg["multi"]}
            # an exception that comes out of a shipped policy's own decision function is also that policy failing to
            # decide: the policy's property claims it through this companion rule
            owner = {"priority.py": "C12", "priority_pool.py": "C16", "naive.py": "C17", "overbook.py": "C18"}
            for fr in tb:
                base_ = os.path.basename(fr.filename)
                if base_ in owner and os.sep + "scheduler" + os.sep in fr.filename:
                    det["also"] = [{"rule": owner[base_] + ".scheduler_raised",
                                    "detail": {"exc": type(e).__name__, "msg": str(e)[:160], "in": "%s:%s" % (base_, fr.name)}}]
                    break
            raise Violation("C08.raises", det, rec.tick)
        for o in rec.oracles:
            if hasattr(o, "on_end"):
                o.on_end(rec, stats)
        if rec.deferred is not None:
            raise rec.deferred
    except Violation as v:
        v.tick = v.tick if v.tick is not None else rec.tick
        if rec.deferred is not None and v is not rec.deferred:
            v.detail = dict(v.detail, also=list(v.detail.get("also", [])) + [{"rule": rec.deferred.rule, "detail": rec.deferred.detail}])
        out["violation"] = v.to_json()
        out["log_tail"] = [list(e) for e in rec.log.events[-40:]]
    except Discard as d:
        out["discard"] = str(d)
    finally:
        if tmpd is not None:
            import shutil
            shutil.rmtree(tmpd, ignore_errors=True)
        simmod.Executor = saved_ex
        exdrv.set_log(None)
        if "uuid_seed" in ids:
            set_uuid_stream(None)
        REC = None
    out["ticks"] = rec.tick + 1
    out["sim_s"] = (rec.tick + 1) / cfg["tps"]
    out["sig"] = digest(rec.sig)
    out["nontrivial"] = any(any(x in ("S", "F") for x in ts) for ts in rec.sig)
    pr = dict(rec.probes)
    for k_, v in rec.log.counts.items():
        pr["to_" + k_] = v
    out["probes"] = pr
    return out, rec, stats


# ---------------------------------------------------------------------------
# chaos scheduler as an ordinary custom scheduler (registered through the public decorators)
# ---------------------------------------------------------------------------
_chaos_registered = False


def ensure_chaos_scheduler():
    """A seeded custom scheduler that issues arbitrary *admissible* decisions - any ready operators in any packing,
    any sizes that fit, any pool, suspension of any container at a boundary, retries of failed work with any size -
    so that the full loop (run_simulator, Scheduler, Executor, statistics) is exercised far outside the shipped
    policies' habits."""
    global _chaos_registered
    if _chaos_registered:
        return
    import_repo()
    from eudoxia.scheduler.decorators import register_scheduler, register_scheduler_init
    from eudoxia.executor.assignment import Assignment, Suspend
    from eudoxia.workload import OperatorState as S

    @register_scheduler_init(key="verifchaos")
    def cinit(s):
        k = REC.scn.get("chaos", {})
        s.vr = _random.Random(k.get("seed", 0))
        s.vk = k
        s.vpipes = []

    @register_scheduler(key="verifchaos")
    def cstep(s, results, pipelines):
        r, k = s.vr, s.vk
        s.vpipes.extend(pipelines)
        multi = s.params["multi_operator_containers"]
        over = s.params.get("allow_memory_overcommit", False)
        sus, asg = [], []
        for pl in s.executor.pools:
            for c in pl.active_containers:
                if c.can_suspend_container() and r.random() < k.get("p_sus", 0.2):
                    sus.append(Suspend(c.container_id, pl.pool_id))
        live = [p for p in s.vpipes if not p.runtime_status().is_pipeline_successful()]
        pools = list(s.executor.pools)
        r.shuffle(pools)
        for pl in pools:
            cpu_left, ram_left = pl.avail_cpu_pool, pl.avail_ram_pool
            mine = []
            for _ in range(k.get("per_pool", 2)):
                if cpu_left < 1 or (ram_left <= 0 and not over) or r.random() > k.get("p_asg", 0.7) or not live:
                    break
                p = r.choice(live)
                st = p.runtime_status().operator_states
                states = (S.PENDING, S.FAILED) if k.get("retry", True) else (S.PENDING,)
                chosen = []
                for o in p.values:
                    if st[o] in states and all(st[q] == S.COMPLETED or q in chosen for q in o.parents) and r.random() < k.get("p_op", 0.8):
                        chosen.append(o)
                        if not multi:
                            break
                if not chosen:
                    continue
                cpu = r.randint(1, max(1, int(cpu_left)))
                if over and r.random() < 0.5:
                    ram = pl.max_ram_pool * r.choice([0.25, 0.5, 1.0])
                else:
                    ram = ram_left * r.choice([0.05, 0.1, 0.25, 0.5, 0.9])
                if ram <= pl.max_ram_pool * 1e-3:
                    break
                a = Assignment(ops=chosen, cpu=cpu, ram=ram, priority=p.priority, pool_id=pl.pool_id, pipeline_id=p.pipeline_id)
                mine.append(a)
                cpu_left -= cpu
                ram_left -= ram
            asg.extend(mine)
        return sus, asg

    _chaos_registered = True
