from . import base
from .. import sysgen

PROP = "C12"
LEVEL = "exploration"
COMPONENTS = base.COMPONENTS_SYS
RULE_TEXT = base.RULE_SYS
claims = base.prefix_claims(*"C12.".split(","))
execute = base.dispatch_execute
prepare_replay = base.dispatch_prepare
sample = base.dispatch_sample
ORACLES = [x for x in "policy".split(",") if x]
ALGOS = ["priority", "priority", "priority-pool"]


def make(family, rng, tier):
    if family == "many":
        scn = sysgen.gen_many(rng, "priority", tier)
        scn["oracles"] = ORACLES
        scn["defer"] = ["C01.", "C02.", "C03.conservation"]
        return scn
    if family == "preempt":
        scn = sysgen.gen_preempt(rng, tier, offgrid=rng.random() < 0.5)
        scn["oracles"] = ORACLES
        scn["defer"] = ["C01.", "C02.", "C03.conservation"]
        return scn
    if family == "gen":
        scn = sysgen.gen_generated(rng, rng.choice(ALGOS) if ALGOS else None, tier)
    else:
        scn = sysgen.gen(rng, rng.choice(ALGOS) if ALGOS else None, PROP, tier)
    scn["oracles"] = ORACLES
    scn["defer"] = ["C01.", "C02.", "C03.conservation"]
    if "pipes" in scn and rng.random() < 0.2:
        # recurring jobs: the id of a finished pipeline comes back, possibly in another priority class
        scn["reuse_ids"] = True
        scn["reuse_any_class"] = rng.random() < 0.6
        scn["reuse_seed"] = rng.randint(0, 10 ** 6)
        scn["reuse_gap"] = 2
    return scn


def plan(tier):
    q = tier == "quick"
    return [("sys", 4000 if q else 80000), ("preempt", 2500 if q else 50000), ("many", 6 if q else 100)]


WANT_PROBES = ["priority_suspension", "retry_assigned", "retry_abandoned"]
