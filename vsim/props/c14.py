from . import base
from .. import tracecmp

PROP = "C14"
LEVEL = "exploration"
COMPONENTS = {"real": ["CSVWorkloadReader", "CSVWorkloadWriter", "WorkloadTraceGenerator", "WorkloadTrace", "Pipeline/DAG"],
              "stub": ["files are in-memory StringIO objects"]}
RULE_TEXT = ("CMP driver: seeded pipelines (any DAG incl. multi-parent and several roots, all priorities, all seven laws, "
             "numbers from 1e-9 to 1e9, memory 0 vs unset, several pipelines per arrival) written by the real writer and "
             "read back (w2r), files in the writer's format read and rewritten (r2w), and storage faults: one format "
             "violation injected into a valid file (corrupt). The w2r/r2w clauses are pure functions of their input - the "
             "simulator contributes seed/replay/minimise plumbing and the fault injection, not a schedule. Non-trivial = every "
             "case (each has >= 1 pipeline); distinct = distinct (tick rate, pipelines, corruption)")
claims = base.prefix_claims("C14.")
WANT_PROBES = list(tracecmp.CORRUPTIONS) + ["mem_zero", "mem_unset", "multi_parent", "same_arrival"]
RUNNERS = {"w2r": tracecmp.run_w2r, "r2w": tracecmp.run_r2w, "corrupt": tracecmp.run_corrupt, "behav": tracecmp.run_behav}


def make(family, rng, tier):
    if family == "behav":
        return tracecmp.gen_behav(rng, tier)
    scn = {"kind": family, "tps": rng.choice([1, 2, 4, 8, 16, 64, 1024]), "pipes": tracecmp.gen_pipes14(rng)}
    if family == "r2w" and rng.random() < 0.15:
        scn["col_order"] = rng.choice(["reversed", "arrival_last", "id_last"])     # the reader goes by header names
    if family == "corrupt":
        scn["corruption"] = rng.choice(tracecmp.CORRUPTIONS)
        scn["target"] = rng.randrange(len(scn["pipes"]))
        scn["row"] = rng.randrange(6)
        scn["junk"] = rng.choice(["URGENT", "query", "Batch", "cubic", "LINEAR3", "none", " ", "BATCH", "PIPELINE", "BATCH_PIPELINES",
                                  "INTERACTIVE_PIPELINE", "1", "3", "HIGH", "Priority.QUERY", "linear", "linear5", "Const", "squared2",
                                  "_const", "exponential"])
    return scn


def execute(scn, rng):
    out = RUNNERS[scn["kind"]](scn)
    scn.pop("_text", None)
    return out


def plan(tier):
    q = tier == "quick"
    return [("w2r", 3000 if q else 60000), ("r2w", 2000 if q else 40000), ("corrupt", 3000 if q else 60000),
            ("behav", 600 if q else 10000)]


def sample(scn, out):
    if scn["kind"] == "behav":
        return {"kind": "behav", "cfg": scn["cfg"], "pipelines": len(scn["pipes"])}
    return {"kind": scn["kind"], "tps": scn["tps"], "pipelines": len(scn["pipes"]), "first_pipeline": scn["pipes"][0],
            "corruption": scn.get("corruption")}


def shrink_candidates(scn):
    import copy
    n = len(scn["pipes"])
    for i in range(n - 1, -1, -1):
        if n > 1 and i != scn.get("target"):
            s = copy.deepcopy(scn)
            del s["pipes"][i]
            if "target" in s and i < s["target"]:
                s["target"] -= 1
            yield s
