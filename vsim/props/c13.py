from . import base
from .. import tracecmp

PROP = "C13"
LEVEL = "exploration"
COMPONENTS = {"real": ["CSVWorkloadReader", "WorkloadTrace", "WorkloadGenerator", "WorkloadTraceGenerator", "CSVWorkloadWriter",
                       "eudoxia.__main__.run_command / gentrace_command (cli family: TOML file, trace file, run_simulator with a "
                       "recording do-nothing scheduler)"],
              "stub": ["files are in-memory StringIO objects; the scheduler/executor are not involved"]}
RULE_TEXT = ("CMP driver: seeded traces (1..50 pipelines, on/off-grid decimal arrivals, equal arrivals, gaps of millions "
             "of ticks with discrete-event clock jumps, arrivals beyond the end) replayed through the real reader and "
             "WorkloadTrace; grid sweeps of consecutive ticks; gentrace round trips of the real generator. Non-trivial = "
             "the trace contains on-grid, in-band, equal or beyond-end arrivals; big family: traces of 1-25 MiB (15 000 - 255 000 pipelines); distinct = distinct (tick rate, length, arrivals)")
claims = base.prefix_claims("C13.")
WANT_PROBES = ["on_grid", "in_band", "beyond_end", "equal_arrivals", "jumps"]


def make(family, rng, tier):
    if family == "aimD9a":
        # re-confirms known finding D9a on every run of this check
        k = rng.choice([419, 57, 1019, 113])
        return {"kind": "trace", "tps": 100, "nticks": k + 5, "arrivals": ["%d.%02d" % (k // 100, k % 100)], "nops": [1], "jump": False}
    if family == "aimD9b":
        return {"kind": "roundtrip", "params": {"ticks_per_second": 100, "duration": 3.0, "waiting_seconds_mean": 0.02, "num_pipelines": 1,
                                                "num_operators": 2, "num_segs": 1, "cpu_io_ratio": 0.5, "random_seed": rng.randint(0, 10 ** 6),
                                                "interactive_prob": 0.3, "query_prob": 0.1, "batch_prob": 0.6}}
    if family == "trace":
        return tracecmp.gen_trace(rng, avoid_known=rng.random() < 0.95)
    if family == "sens":
        return tracecmp.gen_sens(rng)
    if family == "cli":
        return {"kind": "cli", "params": tracecmp.gen_params(rng), "twice": rng.random() < 0.3}
    if family == "big":
        return tracecmp.gen_bigtrace(rng, tier)
    if family == "grid":
        return tracecmp.gen_gridsweep(rng, tier)
    return {"kind": "roundtrip", "params": tracecmp.gen_params(rng)}


def execute(scn, rng):
    if scn["kind"] == "sens":
        return tracecmp.run_sens(scn)
    if scn["kind"] == "cli":
        return tracecmp.run_cli_roundtrip(scn)
    if scn["kind"] == "roundtrip":
        return tracecmp.run_roundtrip(scn)
    return tracecmp.run_trace(scn)


def plan(tier):
    q = tier == "quick"
    return [("trace", 6000 if q else 100000), ("grid", 96 if q else 480), ("roundtrip", 400 if q else 8000),
            ("aimD9a", 8), ("aimD9b", 8), ("big", 8 if q else 64), ("cli", 150 if q else 3000), ("sens", 120 if q else 2500)]


def sample(scn, out):
    s = dict(scn)
    if "arrivals" in s:
        s["arrivals"] = s["arrivals"][:10]
        s["n_arrivals"] = len(scn["arrivals"])
        s.pop("nops", None)
    return s


def shrink_candidates(scn):
    import copy
    if scn.get("kind") != "trace":
        return
    if scn.get("big"):
        for f in (2, 4, 16):
            s = copy.deepcopy(scn)
            s["big"]["n"] = max(1, scn["big"]["n"] // f)
            s["nticks"] = s["big"]["n"] // s["big"]["per_tick"] + 2
            yield s
        return
    n = len(scn["arrivals"])
    # halves first, then single pipelines
    for lo, hi in ((0, n // 2), (n // 2, n)):
        if 0 < hi - lo < n:
            s = copy.deepcopy(scn)
            s["arrivals"] = scn["arrivals"][lo:hi]
            if s.get("nops"):
                s["nops"] = scn["nops"][lo:hi]
            yield s
    if n <= 60:
        for i in range(n - 1, -1, -1):
            if n > 1:
                s = copy.deepcopy(scn)
                del s["arrivals"][i]
                if s.get("nops"):
                    del s["nops"][i]
                yield s
