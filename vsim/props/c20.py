from . import base
from .. import toolscmp

PROP = "C20"
LEVEL = "exploration"
COMPONENTS = {"real": ["eudoxia.tools.snap_command", "jitter_command", "sensitivity_sample_command", "_sensitivity_task",
                       "WorkloadGenerator/WorkloadTraceGenerator/CSVWorkloadWriter (inside the sample task)",
                       "CSVWorkloadReader + WorkloadTrace (replay of snapped traces)"],
              "stub": ["multiprocessing.Pool (in-process pool, seeded task order)", "sensitivity_command (recorder)",
                       "files live in a temporary directory removed after each run"]}
RULE_TEXT = ("CMP driver: seeded traces (on/off-grid decimal and float-grid arrivals, equal arrivals, extra and quoted columns) "
             "through the real snap and jitter commands on temporary files, and the real sensitivity-sample fan-out with an "
             "in-process worker pool. snap/jitter arithmetic is a pure function of (file, parameter, seed): the simulator "
             "contributes the seed seam, the worker fan-out, the replay-through-WorkloadTrace clause and replay/minimise plumbing. "
             "Non-trivial = every case; distinct = distinct inputs")
claims = base.prefix_claims("C20.")
WANT_PROBES = ["on_grid", "in_band_below", "off_grid", "replayed", "ties_out", "delta_zero", "reordered", "samples", "samples_compared"]
RUNNERS = {"snap": toolscmp.run_snap, "jitter": toolscmp.run_jitter, "sample": toolscmp.run_sample}


def make(family, rng, tier):
    return toolscmp.gen_scn(rng, family, tier)


def execute(scn, rng):
    return RUNNERS[scn["kind"]](scn)


def plan(tier):
    q = tier == "quick"
    return [("snap", 2500 if q else 60000), ("jitter", 1500 if q else 40000), ("sample", 64 if q else 1500),
            ("bigjitter", 4 if q else 40)]


def sample(scn, out):
    s = dict(scn)
    if "arrivals" in s:
        s["n"] = len(s["arrivals"])
        s["arrivals"] = s["arrivals"][:8]
        s.pop("nops", None)
    return s


def shrink_candidates(scn):
    import copy
    if scn.get("big"):
        for f in (2, 4):
            s = copy.deepcopy(scn)
            s["big"]["n"] = max(2, scn["big"]["n"] // f)
            yield s
        return
    if "arrivals" not in scn:
        if scn.get("samples", 0) > 2:
            s = copy.deepcopy(scn)
            s["samples"] -= 1
            yield s
        return
    n = len(scn["arrivals"])
    for i in range(n - 1, -1, -1):
        if n > 1:
            s = copy.deepcopy(scn)
            del s["arrivals"][i]
            del s["nops"][i]
            yield s
    if scn.get("extra_col"):
        s = copy.deepcopy(scn)
        s["extra_col"] = False
        yield s
    if any(x > 1 for x in scn["nops"]):
        s = copy.deepcopy(scn)
        s["nops"] = [1] * n
        yield s


def extra(tier, seed):
    from ..common import Violation
    n = 40 if tier == "quick" else 300
    base_d = toolscmp.jitter_digests(seed, n)
    viol = []
    seeds = [1, 31337] if tier == "quick" else [1, 2, 3, 31337, 99]
    for hs in seeds:
        other = toolscmp.fresh_jitter_digests(seed, n, hs)
        for i, (a, b) in enumerate(zip(base_d, other)):
            if a != b and len(viol) < 2:
                viol.append({"idx": i, "family": "jitter_fresh", "scenario": None,
                             "violation": Violation("C20.jitter.differs_across_processes", {
                                 "scenario_index": i, "PYTHONHASHSEED": hs, "this_process": a, "fresh_interpreter": b}).to_json()})
    return {"jitter_fresh_interpreter_comparisons": {"traces": n, "hash_seeds": seeds, "mismatches": len(viol)},
            "violations": viol}
