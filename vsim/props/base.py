"""Shared pieces of the per-property modules."""
from .. import exdrv, exgen

COMPONENTS_EX = {
    "real": ["eudoxia.executor.Executor", "ResourcePool", "Container", "Assignment", "Suspend",
             "Pipeline/Operator/Segment", "PipelineRuntimeStatus"],
    "stub": ["scheduler (seeded chaos scheduler issuing admissible and inadmissible commands)",
             "workload (scenario pipelines)"],
}

RULE_EX = ("EX driver: seeded scenarios (config x pipelines x chaos command stream with one optional inadmissible "
           "decision) executed on the real Executor in lock-step with an exact-arithmetic reference model; "
           "a run is non-trivial if at least one fault fired in it (container OOM, pool-level kill, suspension, "
           "rejection); distinct = distinct per-tick abstract event sequences (assign/suspend/kill/complete/"
           "suspend-end/reject kinds)")


def ex_make(focus):
    def make(family, rng, tier):
        return exgen.gen(rng, focus, tier)
    return make


def ex_execute(scn, rng):
    return exdrv.run(scn, rng)


def ex_prepare_replay(scn, viol):
    """Keep the recorded script up to the violating tick; drop generator knobs."""
    s = {k: v for k, v in scn.items() if k not in ("knobs",)}
    t = viol.get("tick")
    if t is not None and "script" in s:
        s["script"] = s["script"][: t + 1]
        s["cfg"] = dict(s["cfg"], ticks=t + 1)
    return s


def ex_sample(scn, out):
    return {"cfg": scn["cfg"], "pipelines": len(scn["pipes"]),
            "first_pipeline": scn["pipes"][0],
            "script_head": [c for t in scn.get("script", [])[:6] for c in t][:8],
            "fault": scn.get("knobs", {}).get("fault"), "ended_by": out.get("ended_by")}


def prefix_claims(*prefixes):
    def claims(rule):
        return any(rule == p or rule.startswith(p) for p in prefixes)
    return claims


# ---------------------------------------------------------------------------
# SYS families
# ---------------------------------------------------------------------------
COMPONENTS_SYS = {
    "real": ["eudoxia.simulator.run_simulator", "Scheduler + shipped policies (naive, priority, priority-pool, "
             "overbook) and the starter template written by init_command", "Executor/ResourcePool/Container",
             "PipelineRuntimeStatus", "statistics code"],
    "stub": ["workload source (scenario pipelines replayed through the public Workload interface) unless the "
             "family says it wraps the real WorkloadGenerator"],
}

RULE_SYS = ("SYS driver: seeded scenarios (valid configuration x well-formed workload with OOM-prone memory profiles, "
            "query bursts, tight pools) run through the real run_simulator with recording seams; non-trivial = at "
            "least one failure result or suspension occurred; distinct = distinct per-tick sequences of "
            "(assignments, suspensions, successes, failures)")


def sys_oracles(scn):
    from .. import sysoracles as so
    algo = scn["cfg"]["algo"]
    out = []
    for name in scn.get("oracles", []):
        if name == "stats":
            out.append(so.StatsOracle())
        elif name == "uncontended":
            out.append(so.UncontendedOracle())
        elif name == "admissible":
            out.append(so.AdmissibilityOracle())
        elif name == "model":
            out.append(so.ModelOracle(scn["cfg"]))
        elif name == "policy":
            if algo in ("priority", "priority-pool"):
                out.append(so.PriorityOracle(algo))
            if algo == "priority-pool":
                out.append(so.PoolOracle())
            if algo == "naive":
                out.append(so.NaiveOracle(scn["cfg"]["multi"]))
            if algo == "template":
                out.append(so.NaiveOracle(scn["cfg"]["multi"], template=True))
            if algo == "overbook":
                out.append(so.OverbookOracle())
    return out


def via_trace(scn, rng, mode=None):
    """Turn a scenario into one whose pipelines reach the simulator through a trace file read by the real
    CSVWorkloadReader / WorkloadTrace.  File order: sorted by arrival, two individually sorted traces appended, or
    shuffled (rows out of arrival order are delivered late, never refused)."""
    for p in scn["pipes"]:
        for o in p["ops"]:
            o["segs"] = o["segs"][:1]                 # the trace format has one segment per operator
    n = len(scn["pipes"])
    mode = mode or rng.choice(["sorted", "sorted", "appended", "appended", "shuffled"])
    idx = sorted(range(n), key=lambda k: scn["pipes"][k]["at"])
    if mode == "appended":
        a = [k for k in idx if rng.random() < 0.5]
        idx = a + [k for k in idx if k not in a]
    elif mode == "shuffled":
        rng.shuffle(idx)
    scn["via_trace"] = {"mode": mode, "order": idx}
    return scn


def sys_execute(scn, rng):
    from .. import sysdrv
    factory = None
    if scn.get("big") and "pipes" not in scn:
        from ..sysgen import expand_big
        scn = expand_big(scn)
    if scn.get("via_trace"):
        import io
        from ..tracecmp import scn_to_rows, rows_to_text
        from ..common import import_repo
        import_repo()
        from eudoxia.workload.csv_io import CSVWorkloadReader
        tps = scn["cfg"]["tps"]
        n = len(scn["pipes"])
        order = [k for k in scn["via_trace"]["order"] if k < n]
        order += [k for k in range(n) if k not in order]          # (a minimised scenario has fewer pipelines)
        text = rows_to_text(scn_to_rows([scn["pipes"][k] for k in order], tps))

        def factory(rec):
            rec.probe("trace_" + scn["via_trace"]["mode"])
            return sysdrv.wrap_workload(CSVWorkloadReader(io.StringIO(text)).get_workload(tps), rec)
    out, rec, stats = sysdrv.run(scn, oracles=sys_oracles(scn), workload_factory=factory, keep_rounds=False)
    return out


def sys_sample(scn, out):
    return {"cfg": scn["cfg"], "pipelines": len(scn.get("pipes", [])),
            "first_pipeline": (scn.get("pipes") or [None])[0], "oracles": scn.get("oracles")}


def dispatch_execute(scn, rng):
    k = scn.get("kind")
    if k == "sys":
        return sys_execute(scn, rng)
    if k == "walk":
        from .. import walks
        return walks.run_walk(scn)
    if k == "dag":
        from .. import walks
        return walks.run_dag(scn)
    if k == "solo":
        return exdrv.run_solo_reuse(scn)
    return ex_execute(scn, rng)


def dispatch_prepare(scn, viol):
    k = scn.get("kind")
    if k == "walk":
        t = viol.get("tick")
        return dict(scn, requests=scn["requests"][: t + 1]) if t is not None else scn
    if k == "sys" and viol.get("tick") is not None and "pipes" in scn:
        # a shorter run that still reaches the violating tick (kept only if it reproduces: the runner re-executes it)
        import copy
        s = copy.deepcopy(scn)
        tps = s["cfg"]["tps"]
        nt = viol["tick"] + 2
        if nt / tps < s["cfg"]["duration"]:
            s["cfg"]["duration"] = nt / tps
            s["pipes"] = [p for p in s["pipes"] if p.get("at", 0) <= viol["tick"]]
            try:
                out = sys_execute(copy.deepcopy(s), None)
                if out.get("violation") and out["violation"]["rule"] == viol["rule"]:
                    return s
                for a in (out.get("violation") or {}).get("detail", {}).get("also", []):
                    if a["rule"] == viol["rule"]:
                        return s
            except Exception:  # noqa: BLE001
                pass
        return scn
    if k != "ex":
        return scn
    return ex_prepare_replay(scn, viol)


def dispatch_sample(scn, out):
    k = scn.get("kind")
    if k == "sys":
        return sys_sample(scn, out)
    if k == "walk":
        return {"kind": "walk", "par": scn["par"], "requests_head": scn["requests"][:12], "n_requests": len(scn["requests"])}
    if k != "ex":
        return scn
    return ex_sample(scn, out)


def walk_candidates(scn):
    import copy
    if scn.get("kind") != "walk":
        return
    n = len(scn["requests"])
    for i in range(n - 2, -1, -1):
        s = copy.deepcopy(scn)
        del s["requests"][i]
        yield s
