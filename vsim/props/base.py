"""Shared pieces of the per-property modules."""
from .. import exdrv, exgen

COMPONENTS_EX = {
    "real": ["eudoxia.executor.Executor", "ResourcePool", "Container", "Assignment", "Suspend",
             "Pipeline/Operator/Segment", "PipelineRuntimeStatus"],
    "stub": ["scheduler (seeded chaos scheduler issuing admissible and inadmissible commands)",
             "workload (scenario pipelines)"],
}

RULE_EX = ("EX driver: seeded scenarios (config x pipelines x chaos command stream with one optional inadmissible "
           "decision) executed on the real Executor in lock-step with an exact-arithmetic reference model; "
           "a run is non-trivial if at least one fault fired in it (container OOM, pool-level kill, suspension, "
           "rejection); distinct = distinct per-tick abstract event sequences (assign/suspend/kill/complete/"
           "suspend-end/reject kinds)")


def ex_make(focus):
    def make(family, rng, tier):
        return exgen.gen(rng, focus, tier)
    return make


def ex_execute(scn, rng):
    return exdrv.run(scn, rng)


def ex_prepare_replay(scn, viol):
    """Keep the recorded script up to the violating tick; drop generator knobs."""
    s = {k: v for k, v in scn.items() if k not in ("knobs",)}
    t = viol.get("tick")
    if t is not None and "script" in s:
        s["script"] = s["script"][: t + 1]
        s["cfg"] = dict(s["cfg"], ticks=t + 1)
    return s


def ex_sample(scn, out):
    return {"cfg": scn["cfg"], "pipelines": len(scn["pipes"]),
            "first_pipeline": scn["pipes"][0],
            "script_head": [c for t in scn.get("script", [])[:6] for c in t][:8],
            "fault": scn.get("knobs", {}).get("fault"), "ended_by": out.get("ended_by")}


def prefix_claims(*prefixes):
    def claims(rule):
        return any(rule == p or rule.startswith(p) for p in prefixes)
    return claims
