from . import base
from .. import sysgen, exgen

PROP = "C04"
LEVEL = "exploration"
COMPONENTS = {"real": base.COMPONENTS_SYS["real"], "stub": base.COMPONENTS_EX["stub"]}
RULE_TEXT = base.RULE_EX + " || " + base.RULE_SYS
# an oversold batch accepted by a pool without overcommit voids the premise of the last clause ("without overcommit a
# container that stays within its allocation is never killed"): the check claims that rule as well
claims = base.prefix_claims(*"C04.,C03.oversell_accepted".split(","))
execute = base.dispatch_execute
prepare_replay = base.dispatch_prepare
sample = base.dispatch_sample


def make(family, rng, tier):
    if family == "ex":
        return exgen.gen(rng, PROP, tier)
    if family == "sysmodel":
        # real schedulers, exact model in lock-step inside run_simulator (off-grid sizes keep it out of the float band)
        scn = sysgen.gen_preempt(rng, tier) if rng.random() < 0.3 else sysgen.gen(rng, None, PROP, tier, offgrid=True)
        scn["oracles"] = ["model"]
        return scn
    scn = sysgen.gen(rng, None, PROP, tier)
    scn["oracles"] = []
    return scn


def plan(tier):
    q = tier == "quick"
    return [("ex", 3000 if q else 50000), ("sys", 2000 if q else 40000), ("sysmodel", 1500 if q else 30000)]
