from . import base
from .. import sysgen, exgen

PROP = "C05"
LEVEL = "exploration"
COMPONENTS = {"real": base.COMPONENTS_SYS["real"], "stub": base.COMPONENTS_EX["stub"]}
RULE_TEXT = base.RULE_EX + " || sysmodel family: " + base.RULE_SYS + ", with the exact model in lock-step inside run_simulator"
# (a container killed although it stayed within its allocation and the pool fits is also a container that did not
# "succeed after exactly the summed tick count": C04.kill_unjustified is claimed here too)
claims = base.prefix_claims(*"C05.,EX.states,EX.results,EX.lists.active,EX.crash,C04.kill_unjustified".split(","))
execute = base.dispatch_execute
prepare_replay = base.dispatch_prepare
sample = base.dispatch_sample


def make(family, rng, tier):
    if family == "ex":
        return exgen.gen(rng, PROP, tier)
    if family == "crowd":
        # the same clauses with neighbours in the pool: what one container does must not change another's outcome
        return exgen.gen(rng, "C04", tier)
    if family == "solo":
        from .. import exdrv
        return exdrv.gen_solo_reuse(rng)
    scn = sysgen.gen_preempt(rng, tier) if rng.random() < (0.7 if PROP == "C10" else 0.3) else sysgen.gen(rng, None, PROP, tier, offgrid=True)
    scn["oracles"] = ["model"]
    return scn


def plan(tier):
    q = tier == "quick"
    return [("ex", 5000 if q else 80000), ("sysmodel", 1500 if q else 30000), ("solo", 1500 if q else 30000),
            ("crowd", 1500 if q else 30000)]
