from .base import *  # noqa: F401,F403
from . import base

PROP = "C05"
LEVEL = "exploration"
COMPONENTS = base.COMPONENTS_EX
RULE_TEXT = base.RULE_EX
claims = base.prefix_claims(*"C05.,EX.states,EX.results,EX.lists.active,EX.crash".split(","))
make = base.ex_make("C05")
execute = base.ex_execute
prepare_replay = base.ex_prepare_replay
sample = base.ex_sample


def plan(tier):
    return [("ex", 5000 if tier == "quick" else 80000)]
