from . import base
from .. import restsim

PROP = "C19"
LEVEL = "exploration"
COMPONENTS = {"real": ["eudoxia/scheduler/rest.py (rest_init, rest_scheduler, reply parsing)", "all to_dict serialisers",
                       "run_simulator, Executor, Scheduler"],
              "stub": ["HTTP transport (in-process, real JSON encode/decode both ways, allow_nan=False like requests)",
                       "external scheduler (port of go/naive/main.go and a seeded random admissible policy that sees only the JSON; "
                       "suspension admissibility taken from the harness's view of the executor)",
                       "time.perf_counter (strictly increasing fake clock with seeded latencies up to an hour per call)"],
              "not_run": ["go/ (no Go toolchain in the sandbox)"]}
RULE_TEXT = ("SYS driver with the rest scheduler over a simulated transport: every request is checked against an independent read "
             "of results, pools, containers and operator states at call time, key allow-lists, new/other disjointness, completion "
             "reporting and the poll discipline; then the recorded decisions are replayed by an in-process scheduler on the same "
             "scenario and canonical logs and statistics must be identical. Non-trivial = a failure result, an executor suspension "
             "or an externally decided suspension occurred; distinct = distinct per-tick event sequences")
claims = base.prefix_claims("C19.")
WANT_PROBES = ["idle_call", "complete_reported", "suspensions_decided", "requests", "mixed_pipeline_container", "pipeline_id_reused"]


def make(family, rng, tier):
    scn = restsim.gen_storm(rng, tier) if family == "storm" else restsim.gen_scn(rng, tier)
    # the executor-side snapshot rules of neighbouring properties ride along: the bridge's own oracles get to see what
    # the external scheduler is told next
    scn["defer"] = ["C01.", "C02.", "C09.identity"]
    return scn


def execute(scn, rng):
    return restsim.run_rest(scn)


def plan(tier):
    return [("rest", 5000 if tier == "quick" else 120000), ("storm", 3 if tier == "quick" else 40)]


def sample(scn, out):
    return {"cfg": scn["cfg"], "policy": scn["policy"], "latency": scn["latency"], "pipelines": len(scn["pipes"]),
            "policy_knobs": scn["policy_knobs"]}


def extra(tier, seed):
    info, viol = restsim.go_types_crossread()
    return {"go_types_crossread": info, "violations": viol}
