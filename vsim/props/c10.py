from . import base
from .. import sysgen, exgen

PROP = "C10"
LEVEL = "exploration"
COMPONENTS = {"real": base.COMPONENTS_SYS["real"], "stub": base.COMPONENTS_EX["stub"]}
RULE_TEXT = base.RULE_EX + " || sysmodel family: " + base.RULE_SYS + ", with the exact model in lock-step inside run_simulator"
claims = base.prefix_claims(*"C10.,EX.lists.suspend,EX.states,C03.model.,C03.oversell_accepted,EX.crash".split(","))
execute = base.dispatch_execute
prepare_replay = base.dispatch_prepare
sample = base.dispatch_sample


def make(family, rng, tier):
    if family == "ex":
        return exgen.gen(rng, PROP, tier)
    if family == "storm":
        return exgen.gen_storm(rng, PROP, tier)
    scn = sysgen.gen_preempt(rng, tier) if rng.random() < (0.7 if PROP == "C10" else 0.3) else sysgen.gen(rng, None, PROP, tier, offgrid=True)
    scn["oracles"] = ["model"]
    return scn


def plan(tier):
    q = tier == "quick"
    return [("ex", 4000 if q else 60000), ("sysmodel", 1500 if q else 30000), ("storm", 6 if q else 100)]
