from . import base
from .. import sysgen

PROP = "C06"
LEVEL = "exploration"
COMPONENTS = base.COMPONENTS_SYS
RULE_TEXT = base.RULE_SYS
claims = base.prefix_claims(*"C06.".split(","))
execute = base.dispatch_execute
prepare_replay = base.dispatch_prepare
sample = base.dispatch_sample
ORACLES = [x for x in "stats".split(",") if x]
ALGOS = None


def make(family, rng, tier):
    if family == "chaos":
        scn = sysgen.gen_chaos(rng, tier)
        scn["oracles"] = ["stats"]
        return scn
    if family == "uncontended":
        scn = sysgen.gen_uncontended(rng, tier)
        scn["oracles"] = ["uncontended", "stats"]
        return scn
    if family == "big":
        scn = sysgen.gen_bigrun(rng, tier)
        scn["oracles"] = ORACLES
        return scn
    if family == "trace":
        # "generated or trace": the same recount over a run fed by the real trace reader (rows in arrival order)
        scn = base.via_trace(sysgen.gen(rng, rng.choice(ALGOS) if ALGOS else None, PROP, tier), rng, mode="sorted")
        scn["oracles"] = ORACLES
        return scn
    if family == "gen":
        scn = sysgen.gen_generated(rng, rng.choice(ALGOS) if ALGOS else None, tier)
    else:
        scn = sysgen.gen(rng, rng.choice(ALGOS) if ALGOS else None, PROP, tier)
    scn["oracles"] = ORACLES
    if family == "sys" and rng.random() < 0.3:
        scn["reuse_ids"] = True
        scn["reuse_seed"] = rng.randint(0, 10 ** 6)
    return scn


def plan(tier):
    return [("sys", 5000 if tier == "quick" else 80000)]


def plan(tier):  # noqa: F811
    q = tier == "quick"
    return [("sys", 4000 if q else 80000), ("gen", 400 if q else 8000), ("uncontended", 3000 if q else 50000),
            ("chaos", 1000 if q else 20000), ("trace", 400 if q else 8000), ("big", 4 if q else 40)]


WANT_PROBES = ["pipeline_id_reused", "uncontended_checked", "empty_class", "nothing_arrived", "nothing_finished", "pipelines_completed"]
