from . import base
from .. import sysgen, exgen, walks

PROP = "C01"
LEVEL = "exploration"
COMPONENTS = {"real": base.COMPONENTS_SYS["real"] + ["eudoxia.utils.dag.DAG / DAGIterator"],
              "stub": base.COMPONENTS_EX["stub"]}
RULE_TEXT = (base.RULE_SYS + " || " + base.RULE_EX + " || separate pure-function clause: DAG iteration is swept "
             "over ALL insertion-ordered DAGs on 1..6 nodes (reported under dag_iteration_sweep, not as simulation coverage) || "
             "depwalk family: seeded request histories on multi-parent DAGs of 3..6 operators, start requests and "
             "check_transition polls repeated while parents complete, fail and are retried in any order")
claims = base.prefix_claims("C01.")
execute = base.dispatch_execute
prepare_replay = base.dispatch_prepare
sample = base.dispatch_sample
WANT_PROBES = ["dep_pending_parent", "dep_order", "dep_late", "start_refused_for_parents", "polled"]
shrink_candidates = base.walk_candidates


def make(family, rng, tier):
    if family == "ex":
        return exgen.gen(rng, "C01", tier)
    if family == "depwalk":
        return walks.gen_depwalk(rng)
    if family == "chaos":
        scn = sysgen.gen_chaos(rng, tier)
        scn["oracles"] = ["model"]
        return scn
    scn = sysgen.gen(rng, None, "C01", tier)
    scn["oracles"] = []
    return scn


def plan(tier):
    return [("ex", 4000 if tier == "quick" else 60000), ("sys", 4000 if tier == "quick" else 80000),
            ("chaos", 1000 if tier == "quick" else 20000), ("depwalk", 3000 if tier == "quick" else 100000)]


def extra(tier, seed):
    res = walks.sweep_dags(6)
    return {"dag_iteration_sweep": {"dags": res["dags"], "max_nodes": res["max_nodes"], "exhaustive": True,
                                    "violations": len(res["violations"]),
                                    "note": "pure-function clause: every insertion-ordered DAG on 1..6 nodes built through "
                                            "Pipeline.new_operator and iterated with list(pipeline.values)"},
            "violations": res["violations"]}
