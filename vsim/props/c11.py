from .base import *  # noqa: F401,F403
from . import base

PROP = "C11"
LEVEL = "exploration"
COMPONENTS = base.COMPONENTS_EX
RULE_TEXT = base.RULE_EX
claims = base.prefix_claims(*"C11.,C04.kill_unjustified,C04.pool_over".split(","))
def make(family, rng, tier):
    from .. import exgen
    if family == "hair":
        return exgen.gen_hair(rng, PROP, tier)
    return exgen.gen(rng, PROP, tier)


execute = base.ex_execute
prepare_replay = base.ex_prepare_replay
sample = base.ex_sample


def plan(tier):
    return [("ex", 3000 if tier == "quick" else 50000), ("hair", 80 if tier == "quick" else 2000)]
