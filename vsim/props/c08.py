from . import base
from .. import sysgen

PROP = "C08"
LEVEL = "exploration"
COMPONENTS = base.COMPONENTS_SYS
RULE_TEXT = base.RULE_SYS
claims = base.prefix_claims(*"C08.,C01.,C02.,C03.,C09.".split(","))
execute = base.dispatch_execute
prepare_replay = base.dispatch_prepare
sample = base.dispatch_sample
ORACLES = ["admissible"]
ALGOS = None


def make(family, rng, tier):
    if family == "preempt":
        scn = sysgen.gen_preempt(rng, tier, offgrid=rng.random() < 0.5)
        scn["oracles"] = ORACLES
        return scn
    if family == "aimD3":
        # keeps the KNOWN-FINDING line honest: the listed finding is re-confirmed on every run of this check
        scn = sysgen.gen(rng, "priority-pool", PROP, tier)
        scn["cfg"]["multi"] = False
        scn["pipes"] = [{"prio": rng.choice(sysgen.PRIOS), "at": 0, "id": "p1", "ops": [
            {"par": [], "segs": [["0.5", "const", None, "1"]]}, {"par": [0], "segs": [["0.5", "const", None, "1"]]}]}] + scn["pipes"]
        scn["cfg"]["duration"] = max(scn["cfg"]["duration"], 3.0 / scn["cfg"]["tps"])
        scn["oracles"] = ORACLES
        return scn
    if family == "steps":
        scn = sysgen.gen_steps(rng, tier)
        scn["oracles"] = ORACLES
        scn["defer"] = ["C04.", "C09.", "C02."]      # let the run go on to what the scheduler does next
        return scn
    if family == "trace":
        scn = base.via_trace(sysgen.gen(rng, rng.choice(ALGOS) if ALGOS else None, PROP, tier), rng)
        scn["oracles"] = ORACLES
        return scn
    if family == "gen":
        scn = sysgen.gen_generated(rng, rng.choice(ALGOS) if ALGOS else None, tier)
    else:
        scn = sysgen.gen(rng, rng.choice(ALGOS) if ALGOS else None, PROP, tier)
    scn["oracles"] = ORACLES
    return scn


def plan(tier):
    return [("sys", 8000 if tier == "quick" else 150000)]

TIMEOUT_IS_VIOLATION = True


def plan(tier):  # noqa: F811
    return [("sys", 6000 if tier == "quick" else 150000), ("gen", 600 if tier == "quick" else 12000), ("aimD3", 16),
            ("preempt", 2000 if tier == "quick" else 40000), ("trace", 600 if tier == "quick" else 12000),
            ("steps", 3000 if tier == "quick" else 40000)]
