from . import base
from .. import sysgen, exgen, walks

PROP = "C02"
LEVEL = "exploration"
COMPONENTS = {"real": base.COMPONENTS_SYS["real"], "stub": base.COMPONENTS_EX["stub"]}
RULE_TEXT = (base.RULE_SYS + " || " + base.RULE_EX + " || walk family: seeded request histories (30-200 requests, target "
             "uniform over the six states, so most requests are illegal = the injected fault) on every DAG of 1..3 operators, "
             "checked request by request against the documented table; non-trivial = at least one request was refused; "
             "in addition state_machine_sweep replays every reachable (state vector, operator, target) triple")
claims = base.prefix_claims("C02.")
execute = base.dispatch_execute
prepare_replay = base.dispatch_prepare
sample = base.dispatch_sample
shrink_candidates = base.walk_candidates
WANT_PROBES = ["construct_completed", "construct_assigned", "construct_dup", "illegal_request"]


def make(family, rng, tier):
    if family == "ex":
        return exgen.gen(rng, "C02", tier)
    if family == "exsus":
        # suspension-heavy command streams (several containers of one pipeline writing out at once): the states of
        # operators parked in containers are where lifecycle bookkeeping goes wrong quietly
        return exgen.gen(rng, "C10", tier)
    if family == "walk":
        return walks.gen_walk(rng)
    if family == "chaos":
        scn = sysgen.gen_chaos(rng, tier)
        scn["oracles"] = ["model"]
        return scn
    scn = sysgen.gen(rng, None, "C02", tier)
    scn["oracles"] = []
    return scn


def plan(tier):
    q = tier == "quick"
    return [("walk", 6000 if q else 300000), ("ex", 3000 if q else 50000), ("exsus", 2500 if q else 40000), ("sys", 3000 if q else 60000),
            ("chaos", 1000 if q else 20000)]


def extra(tier, seed):
    res = walks.sweep_state_machine()
    return {"state_machine_sweep": {"dag_shapes": res["shapes"], "triples_checked": res["triples"],
                                    "illegal_triples": res["illegal_triples"], "reachable_ratio": 1.0, "exhaustive": True,
                                    "note": "every (state vector, operator, requested state) triple reachable in the model, "
                                            "for all 11 DAGs on 1..3 operators, replayed on a fresh real pipeline"},
            "violations": res["violations"]}
