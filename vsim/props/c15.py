from . import base
from .. import gencmp

PROP = "C15"
LEVEL = "exploration"
COMPONENTS = {"real": ["WorkloadGenerator (stepped through run_one_tick)"], "stub": ["no scheduler / executor involved"]}
RULE_TEXT = ("CMP driver: the real WorkloadGenerator stepped per tick (idle gaps jumped) over seeds x parameter sets "
             "(probability triples incl. zeros and ones, num_pipelines 1..12, num_operators 1..20, waiting time from below one "
             "tick to minutes, cpu_io_ratio 0..1, tick rates 1..100000); strict structural oracle on every emitted pipeline and "
             "statistical oracles with per-check false-alarm probability < 1e-12. Non-trivial = every case; distinct = distinct parameter sets")
claims = base.prefix_claims("C15.")
WANT_PROBES = ["freq_checked", "ops_checked", "gap_checked", "ratio_checked", "zero_prob_class", "prob_one"]


def make(family, rng, tier):
    return gencmp.gen_scn(rng, tier)


def execute(scn, rng):
    return gencmp.run_gen(scn)


def plan(tier):
    return [("gen", 600 if tier == "quick" else 12000)]


def sample(scn, out):
    return scn
