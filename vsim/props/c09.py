from .base import *  # noqa: F401,F403
from . import base

PROP = "C09"
LEVEL = "exploration"
COMPONENTS = base.COMPONENTS_EX
RULE_TEXT = base.RULE_EX
claims = base.prefix_claims(*"C09.,EX.results,EX.crash,EX.lists.".split(","))
make = base.ex_make("C09")
execute = base.ex_execute
prepare_replay = base.ex_prepare_replay
sample = base.ex_sample


def plan(tier):
    return [("ex", 3000 if tier == "quick" else 50000)]
