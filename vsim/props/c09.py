from . import base
from .. import sysgen, exgen

PROP = "C09"
LEVEL = "exploration"
COMPONENTS = {"real": base.COMPONENTS_SYS["real"], "stub": base.COMPONENTS_EX["stub"]}
RULE_TEXT = base.RULE_EX + " || " + base.RULE_SYS
claims = base.prefix_claims(*"C09.,EX.results,EX.crash,EX.lists.".split(","))
execute = base.dispatch_execute
prepare_replay = base.dispatch_prepare
sample = base.dispatch_sample


def make(family, rng, tier):
    if family == "ex":
        return exgen.gen(rng, PROP, tier)
    if family == "storm":
        return exgen.gen_storm(rng, PROP, tier)
    if family == "chaos":
        scn = sysgen.gen_chaos(rng, tier)
        scn["oracles"] = ["model"]
        return scn
    if family == "sysmodel":
        # real schedulers, exact model in lock-step inside run_simulator (off-grid sizes keep it out of the float band)
        scn = sysgen.gen_preempt(rng, tier) if rng.random() < 0.3 else sysgen.gen(rng, None, PROP, tier, offgrid=True)
        scn["oracles"] = ["model"]
        return scn
    scn = sysgen.gen(rng, None, PROP, tier)
    scn["oracles"] = []
    return scn


def plan(tier):
    q = tier == "quick"
    return [("ex", 3000 if q else 50000), ("sys", 2000 if q else 40000), ("sysmodel", 1500 if q else 30000),
            ("chaos", 1000 if q else 20000), ("storm", 6 if q else 100)]
