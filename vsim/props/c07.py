from . import base
from .. import repro
from ..common import Violation

PROP = "C07"
LEVEL = "exploration"
COMPONENTS = base.COMPONENTS_SYS
RULE_TEXT = ("SYS driver, paired runs: every scenario is simulated twice in one process (fresh identifiers vs. after other "
             "simulations with another uuid stream and shifted container numbers) and, for a sample, again in fresh interpreters "
             "under other PYTHONHASHSEED values; canonical tick-by-tick logs (arrivals, decisions, results; identifiers renumbered "
             "by first appearance) and statistics must be identical. indep family: the arrival stream of the real WorkloadGenerator "
             "inside run_simulator is compared across scheduler/executor settings and across seeds. Non-trivial = every pair; "
             "distinct = distinct canonical logs")
claims = base.prefix_claims("C07.")
WANT_PROBES = ["seed_pairs_compared", "uuid_stream_changed"]
N_FRESH = {"quick": 60, "thorough": 300}


def make(family, rng, tier):
    if family == "indep":
        return repro.gen_indep(rng, tier)
    return repro.gen_repro(rng, tier)


def execute(scn, rng):
    if scn["kind"] == "indep":
        return repro.run_indep(scn)
    out = repro.run_repro(scn)
    out.pop("stats", None)
    return out


def plan(tier):
    q = tier == "quick"
    return [("repro", 350 if q else 10000), ("indep", 150 if q else 3000)]


def sample(scn, out):
    return {"kind": scn["kind"], "cfg": scn["cfg"], "pipelines": len(scn.get("pipes", [])) or "generated"}


def extra(tier, seed):
    n = N_FRESH[tier]
    seeds = [1, 2, 3, 5, 4242] if tier == "quick" else [1, 2, 3, 4, 5, 6, 7, 8, 9, 4242, 99991]
    procs = [(hs, repro.fresh_interpreter_start(seed, n, hs)) for hs in seeds]
    base_d = repro.digests_for(seed, n, tier)
    viol = []
    for hs, pr in procs:
        other = repro.fresh_interpreter_collect(pr)
        for i, (a, b) in enumerate(zip(base_d, other)):
            if a != b and len(viol) < 2:
                viol.append({"idx": i, "family": "fresh", "scenario": None,
                             "violation": Violation("C07.differs_across_interpreters", {
                                 "scenario_index": i, "PYTHONHASHSEED": hs, "this_process": a, "fresh_interpreter": b}).to_json()})
    return {"fresh_interpreter_comparisons": {"scenarios": n, "hash_seeds": seeds, "mismatches": len(viol)},
            "violations": viol}
