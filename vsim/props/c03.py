from .base import *  # noqa: F401,F403
from . import base

PROP = "C03"
LEVEL = "exploration"
COMPONENTS = base.COMPONENTS_EX
RULE_TEXT = base.RULE_EX
claims = base.prefix_claims(*"C03.,EX.lists.,EX.crash".split(","))
make = base.ex_make("C03")
execute = base.ex_execute
prepare_replay = base.ex_prepare_replay
sample = base.ex_sample


def plan(tier):
    return [("ex", 4000 if tier == "quick" else 60000)]
