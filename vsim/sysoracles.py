"""History / per-round oracles for the SYS driver (DESIGN 4: C06, C12, C16, C17, C18)."""
import math
from fractions import Fraction as F

from .common import Violation
from .sysdrv import ready_ops

Q, I, B = "QUERY", "INTERACTIVE", "BATCH_PIPELINE"


def _post(rd, npools):
    post = [list(x) for x in rd["pre"]]
    for a in rd["asg"]:
        if 0 <= a.pool_id < npools:
            post[a.pool_id][0] -= a.cpu
            post[a.pool_id][1] -= a.ram
    return post


class FirstAsg:
    """first container of each pipeline, shared by the FIFO rules"""

    def __init__(self):
        self.first = {}
        self.first_obj = {}      # id(Pipeline object) -> tick: a job name that comes back is another pipeline

    def update(self, rd):
        for a in rd["asg"]:
            if a.pipeline_id not in self.first:
                self.first[a.pipeline_id] = rd["tick"]
            k = id(a.ops[0].pipeline)
            if k not in self.first_obj:
                self.first_obj[k] = rd["tick"]


# ---------------------------------------------------------------------------
class PriorityOracle:
    """C12 for `priority` and for the shared pool of `priority-pool`."""

    def __init__(self, algo):
        self.algo = algo
        self.fa = FirstAsg()

    def on_round(self, R, s, rd):
        algo = self.algo
        ex = s.executor
        npools = ex.num_pools
        asg, sus = rd["asg"], rd["sus"]
        t = rd["tick"]
        post = _post(rd, npools)
        self.fa.update(rd)
        prio_of = {p.pipeline_id: p.priority for p in R.pipes}
        waiting = []
        for p in R.pipes:
            if p.runtime_status().finish_tick is not None:
                continue
            o = ready_ops(p, ("pending",))
            if o:
                waiting.append((p, o))
        # strict priority order
        for a in asg:
            for p, o in waiting:
                if p.priority.value < a.priority.value:
                    if algo == "priority-pool" and (p.priority.name == B) != (a.priority.name == B):
                        continue
                    raise Violation("C12.order", {"assigned_pipeline": a.pipeline_id, "assigned_priority": a.priority.name,
                                                  "waiting_pipeline": p.pipeline_id, "waiting_priority": p.priority.name}, t)
        # work conservation
        for p, o in waiting:
            pools = range(npools) if algo == "priority" else ([1] if p.priority.name == B else [0])
            if any(post[i][0] > 0 and post[i][1] > 0 for i in pools):
                R.probe("workcons_checked")
                raise Violation("C12.work_conservation", {
                    "pipeline": p.pipeline_id, "states": [x.state().value for x in p.values],
                    "free_after_round": [[float(x[0]), float(x[1])] for x in post]}, t)
        # FIFO within a class
        rank = {id(q): k for k, q in enumerate(R.pipes)}
        for a in asg:
            pid = a.pipeline_id
            me = a.ops[0].pipeline
            if self.fa.first_obj.get(id(me)) == t and id(me) in rank:
                for k, q in R.open:
                    if q.priority == me.priority and k < rank[id(me)] and id(q) not in self.fa.first_obj:
                        raise Violation("C12.fifo", {"pipeline": pid, "overtaken": q.pipeline_id}, t)
        # pre-emption
        if algo == "priority-pool":
            if sus:
                raise Violation("C12.pool_scheduler_suspends", {"n": len(sus)}, t)
            return
        if sus:
            R.probe("priority_suspension", len(sus))
            nq = 0
            multi = s.params["multi_operator_containers"]
            for p in R.pipes:
                if p.priority.name == Q and p.runtime_status().finish_tick is None:
                    k = sum(1 for st in p.runtime_status().operator_states.values() if st.value in ("pending", "failed"))
                    # a waiting job is one operator in single-operator mode; with multi-operator containers all waiting
                    # operators of a pipeline form one job (queued together on arrival, retried together after an OOM)
                    nq += (1 if k else 0) if multi else k
            if nq == 0:
                raise Violation("C12.suspend_nothing_waiting", {"suspensions": len(sus)}, t)
            if len(sus) > nq:
                raise Violation("C12.suspend_too_many", {"suspensions": len(sus), "waiting_query_jobs_at_most": nq}, t)
            seen = set()
            for su in sus:
                cs = rd["cansusp"].get(su.container_id)
                if cs is None or not cs[0] or cs[2] != su.pool_id or su.container_id in seen:
                    raise Violation("C12.suspend_not_boundary", {"container": su.container_id}, t)
                if cs[1].name == Q:
                    raise Violation("C12.suspend_query", {"container": su.container_id}, t)
                seen.add(su.container_id)


# ---------------------------------------------------------------------------
class PoolOracle:
    """C16: priority-pool isolation and retry rule."""

    def __init__(self):
        self.abandoned = {}      # id(op) -> True
        self.expect = []         # list of sets of id(op)
        self.where = {}          # id(set) -> (pool, container id, ops)

    def on_round(self, R, s, rd):
        ex = s.executor
        t = rd["tick"]
        prio_of = {p.pipeline_id: p.priority for p in R.pipes}
        if rd["sus"]:
            raise Violation("C16.suspends", {"n": len(rd["sus"])}, t)
        for r in rd["results"]:
            if r.failed():
                U = set(id(o) for o in r.ops if o.state().value != "completed")
                pl = ex.pools[r.pool_id]
                if 2 * r.cpu / pl.max_cpu_pool >= 0.5 or 2 * r.ram / pl.max_ram_pool >= 0.5:
                    for k in U:
                        self.abandoned[k] = True
                    R.probe("retry_abandoned")
                else:
                    self.expect.append(U)
                    self.where[id(U)] = (r.pool_id, r.container_id, [o for o in r.ops if id(o) in U])
        for a in rd["asg"]:
            pr = prio_of.get(a.pipeline_id)
            if pr is None:
                raise Violation("C16.unknown_pipeline", {"pipeline": a.pipeline_id}, t)
            want = 1 if pr.name == B else 0
            if a.pool_id != want:
                raise Violation("C16.wrong_pool", {"pipeline": a.pipeline_id, "priority": pr.name, "pool": a.pool_id}, t)
            if a.priority != pr:
                raise Violation("C16.wrong_priority", {"pipeline": a.pipeline_id, "priority": pr.name,
                                                       "assignment_priority": a.priority.name}, t)
            for o in a.ops:
                if o.pipeline.priority != pr:
                    raise Violation("C16.wrong_pool", {"pipeline": a.pipeline_id, "why": "mixed pipelines"}, t)
            aset = set(id(o) for o in a.ops)
            if any(k in self.abandoned for k in aset):
                raise Violation("C16.abandoned_reassigned", {"pipeline": a.pipeline_id}, t)
            for U in list(self.expect):
                if aset & U:
                    if aset != U:
                        raise Violation("C16.retry_not_exact", {"pipeline": a.pipeline_id, "assigned": len(aset),
                                                                "unfinished_of_failed_container": len(U)}, t)
                    self.expect.remove(U)
                    R.probe("retry_assigned")
        # "are retried": a retry that is due cannot be waiting while its pool is completely idle after the round -
        # priority-pool assigns every queued job as long as the pool is not depleted
        for U in self.expect:
            pool_id, cid, ops = self.where[id(U)]
            pl = ex.pools[pool_id]
            idle = not pl.active_containers and not pl.suspending_containers and not any(a.pool_id == pool_id for a in rd["asg"])
            if idle and all(o.state().value == "failed" for o in ops):
                raise Violation("C16.retry_lost", {"pool": pool_id, "failed_container": cid, "operators": len(ops),
                                                   "why": "pool idle after the round, doubled request below half of the pool, retry never issued"}, t)


# ---------------------------------------------------------------------------
class NaiveOracle:
    """C17 (also used for the starter template, which documents the same policy
    with exactly one operator per container)."""

    def __init__(self, multi, template=False):
        self.multi = multi
        self.template = template
        self.fa = FirstAsg()

    def on_round(self, R, s, rd):
        t = rd["tick"]
        asg = rd["asg"]
        if rd["sus"]:
            raise Violation("C17.suspends", {"n": len(rd["sus"])}, t)
        self.fa.update(rd)
        per = {}
        for a in asg:
            per[a.pool_id] = per.get(a.pool_id, 0) + 1
        if any(v > 1 for v in per.values()):
            raise Violation("C17.two_containers_per_pool", {"per_pool": per}, t)
        if asg or rd["results"]:
            for p in R.pipes:
                if rd["pre_failed"].get(p.pipeline_id, 0) > 0 and rd["pre_ready"].get(p.pipeline_id):
                    R.probe("failed_pipeline_with_ready_operator")
                    ops = list(p.values)
                    failed = [i for i, o in enumerate(ops) if o.state().value == "failed"]
                    now_assigned = set(id(o) for a in asg for o in a.ops)
                    if failed and any(id(o) in rd["pre_ready"][p.pipeline_id] and (o.state().value == "pending" or id(o) in now_assigned)
                                      for o in ops[:min(failed)]):
                        R.probe("ready_pending_before_failed")
        for a in asg:
            if (a.cpu, a.ram) != tuple(rd["pre"][a.pool_id]):
                raise Violation("C17.not_whole_free", {"pool": a.pool_id, "given": [a.cpu, a.ram],
                                                       "free": list(rd["pre"][a.pool_id])}, t)
            tc, tr = rd["pre_true"][a.pool_id]
            if abs(a.cpu - tc) > 1e-9 * max(1.0, abs(tc)) or abs(a.ram - tr) > 1e-9 * max(1.0, abs(tr)):
                raise Violation("C17.not_whole_free", {"pool": a.pool_id, "given": [a.cpu, a.ram], "really_free": [tc, tr],
                                                       "pool_says_free": list(rd["pre"][a.pool_id])}, t)
            if rd["pre_failed"].get(a.pipeline_id, 0) > 0:
                raise Violation("C17.failed_pipeline_assigned", {"pipeline": a.pipeline_id}, t)
            if (not self.multi) or self.template:
                if len(a.ops) != 1 or id(a.ops[0]) not in rd["pre_ready"].get(a.pipeline_id, ()):
                    raise Violation("C17.single_ready_operator", {"pipeline": a.pipeline_id, "ops": len(a.ops)}, t)
            pid = a.pipeline_id
            me = a.ops[0].pipeline
            rank = {id(q): k for k, q in enumerate(R.pipes)}
            if self.fa.first_obj.get(id(me)) == t and id(me) in rank:
                for k, q in R.open:
                    if k < rank[id(me)] and id(q) not in self.fa.first_obj:
                        raise Violation("C17.fifo", {"pipeline": pid, "overtaken": q.pipeline_id}, t)


# ---------------------------------------------------------------------------
class OverbookOracle:
    """C18."""

    def __init__(self):
        self.fails = {}

    def on_round(self, R, s, rd):
        ex = s.executor
        t = rd["tick"]
        npools = ex.num_pools
        post = _post(rd, npools)
        for r in rd["results"]:
            if r.failed():
                pid = r.ops[0].pipeline.pipeline_id
                self.fails[pid] = self.fails.get(pid, 0) + 1
        if rd["sus"]:
            raise Violation("C18.suspends", {"n": len(rd["sus"])}, t)
        for a in rd["asg"]:
            if len(a.ops) != 1 or a.cpu != 1 or a.ram != ex.pools[a.pool_id].max_ram_pool:
                raise Violation("C18.shape", {"pipeline": a.pipeline_id, "ops": len(a.ops), "cpu": a.cpu, "ram": a.ram,
                                              "pool_ram": ex.pools[a.pool_id].max_ram_pool}, t)
            if id(a.ops[0]) not in rd["pre_ready"].get(a.pipeline_id, ()):
                raise Violation("C18.not_ready", {"pipeline": a.pipeline_id}, t)
            if self.fails.get(a.pipeline_id, 0) >= 3:
                raise Violation("C18.abandoned_assigned", {"pipeline": a.pipeline_id, "failed_containers": self.fails[a.pipeline_id]}, t)
        for pl in ex.pools:
            # judged at the decision: the executor would refuse the batch and the run would end before on_tick sees it
            n = len(pl.active_containers) + len(pl.suspending_containers) + sum(1 for a in rd["asg"] if a.pool_id == pl.pool_id)
            if n > pl.max_cpu_pool:
                raise Violation("C18.more_containers_than_cpus", {"pool": pl.pool_id, "containers_after_round": n,
                                                                  "cpus": pl.max_cpu_pool, "when": "decision"}, t)
        if rd["results"] or rd["new"]:
            if any(post[i][0] >= 1 for i in range(npools)):
                for p in R.pipes:
                    if p.runtime_status().finish_tick is not None:
                        continue
                    if self.fails.get(p.pipeline_id, 0) < 3 and ready_ops(p, ("pending", "failed")):
                        raise Violation("C18.work_conservation", {"pipeline": p.pipeline_id,
                                                                  "free_cpu_after_round": [float(x[0]) for x in post]}, t)
            R.probe("overbook_round")

    def on_tick(self, R, ex, sus, asg, res):
        for pl in ex.pools:
            n = len(pl.active_containers) + len(pl.suspending_containers)
            if n > pl.max_cpu_pool:
                raise Violation("C18.more_containers_than_cpus", {"pool": pl.pool_id, "containers": n, "cpus": pl.max_cpu_pool}, R.tick)


# ---------------------------------------------------------------------------
def percentile(xs, q):
    """numpy's default (linear interpolation), on exact rationals"""
    xs = sorted(xs)
    n = len(xs)
    if n == 0:
        return None
    pos = F(q, 100) * (n - 1)
    lo = int(pos)
    hi = min(lo + 1, n - 1)
    return F(xs[lo]) + (F(xs[hi]) - F(xs[lo])) * (pos - lo)


def same(a, b, rel=1e-9):
    if a is None:
        return isinstance(b, float) and math.isnan(b)
    if isinstance(b, float) and math.isnan(b):
        return False
    return abs(float(a) - float(b)) <= rel * max(1.0, abs(float(a)))


class StatsOracle:
    """C06: recount of the run from the recorded arrivals, decisions, results and
    the transition log."""

    def __init__(self):
        self.start = {}      # id(ops list) -> tick accepted
        self.hold = []
        self.durations = []  # (ticks, failed)
        self.n_asg = 0
        self.n_sus = 0
        self.fail_by_error = {}
        self.n_ok = 0
        self.n_fail = 0

    def on_tick(self, R, ex, sus, asg, res):
        t = R.tick
        self.n_asg += len(asg)
        self.n_sus += len(sus)
        for a in asg:
            self.start[id(a.ops)] = t
            self.hold.append(a.ops)
        for r in res:
            st = self.start.get(id(r.ops))
            if st is not None:
                self.durations.append((t - st + 1, r.failed()))
            if r.failed():
                self.n_fail += 1
                self.fail_by_error[r.error] = self.fail_by_error.get(r.error, 0) + 1
            else:
                self.n_ok += 1

    def on_end(self, R, stats):
        cfg = R.cfg
        tps = cfg["tps"]
        t_end = R.tick
        arr = {Q: 0, I: 0, B: 0}
        lat = {Q: [], I: [], B: []}
        for p in R.pipes:
            pr = p.priority.name
            arr[pr] += 1
            rs = p.runtime_status()
            at = R.arr_tick[id(p)]
            if rs.arrival_tick != at:
                raise Violation("C06.arrival_tick", {"pipeline": p.pipeline_id, "recorded": rs.arrival_tick, "arrived": at}, t_end)
            done = [R.log.done_tick.get(id(o)) for o in p.values]
            if all(d is not None for d in done) and done:
                ct = max(done)
                if rs.finish_tick != ct:
                    raise Violation("C06.finish_tick", {"pipeline": p.pipeline_id, "recorded": rs.finish_tick,
                                                        "last_operator_completed_in": ct}, t_end)
                lat[pr].append(ct - at)
            elif rs.finish_tick is not None:
                raise Violation("C06.finished_while_unfinished", {"pipeline": p.pipeline_id, "recorded": rs.finish_tick,
                                                                  "states": [o.state().value for o in p.values]}, t_end)

        def cmp(name, want, got, exact=True):
            ok = (want == got) if exact else same(want, got)
            if not ok:
                raise Violation("C06.stat." + name.split("[")[0], {"stat": name, "recount": None if want is None else float(want),
                                                                   "returned": got if not isinstance(got, float) or not math.isnan(got) else "nan"}, t_end)
        cmp("pipelines_created", len(R.pipes), stats.pipelines_created)
        cmp("containers_completed", self.n_ok, stats.containers_completed)
        cmp("assignments", self.n_asg, stats.assignments)
        cmp("suspensions", self.n_sus, stats.suspensions)
        cmp("failures", self.n_fail, stats.failures)
        if dict(stats.failure_error_counts) != self.fail_by_error:
            raise Violation("C06.stat.failure_error_counts", {"recount": self.fail_by_error,
                                                              "returned": dict(stats.failure_error_counts)}, t_end)
        dur = F(cfg["duration"])
        nt = int(dur * tps)
        cands = [F(self.n_ok) / dur]
        if nt > 0:
            cands.append(F(self.n_ok) * tps / nt)
        if not any(same(c, stats.throughput) for c in cands):
            raise Violation("C06.stat.throughput", {"recount": [float(c) for c in cands], "returned": stats.throughput}, t_end)
        all_d = [d for d, _ in self.durations]
        ok_d = [d for d, f in self.durations if not f]
        c1 = percentile(all_d, 99)
        c2 = percentile(ok_d, 99)
        cands = [None if c is None else c / tps for c in (c1, c2)]
        if not any(same(c, stats.p99_latency) for c in cands):
            raise Violation("C06.stat.p99_latency", {"recount": [None if c is None else float(c) for c in cands],
                                                     "returned": stats.p99_latency if not math.isnan(stats.p99_latency) else "nan"}, t_end)
        groups = (("pipelines_all", lat[Q] + lat[I] + lat[B], sum(arr.values())),
                  ("pipelines_query", lat[Q], arr[Q]), ("pipelines_interactive", lat[I], arr[I]),
                  ("pipelines_batch", lat[B], arr[B]))
        for name, ls, na in groups:
            ps = getattr(stats, name)
            cmp(name + "[arrival_count]", na, ps.arrival_count)
            cmp(name + "[completion_count]", len(ls), ps.completion_count)
            mean = (F(sum(ls), len(ls)) / tps) if ls else None
            p99 = (percentile(ls, 99) / tps) if ls else None
            cmp(name + "[mean_latency_seconds]", mean, ps.mean_latency_seconds, exact=False)
            cmp(name + "[p99_latency_seconds]", p99, ps.p99_latency_seconds, exact=False)
        if stats.pipelines_query.arrival_count + stats.pipelines_interactive.arrival_count + \
                stats.pipelines_batch.arrival_count != stats.pipelines_all.arrival_count:
            raise Violation("C06.stat.partition", {}, t_end)
        if lat[Q] or lat[I] or lat[B]:
            R.probe("pipelines_completed", len(lat[Q]) + len(lat[I]) + len(lat[B]))
        for k, n in (("empty_class", sum(1 for x in arr.values() if x == 0)),
                     ("nothing_arrived", int(not R.pipes)), ("nothing_finished", int(not (lat[Q] or lat[I] or lat[B])))):
            if n:
                R.probe(k, n)


class UncontendedOracle:
    """C06 last clause: an uncontended pipeline with enough memory finishes in exactly the ticks its operators
    need under the CPUs it was actually given (chains only, so that containers cannot overlap)."""

    def __init__(self):
        self.asg = []

    def on_tick(self, R, ex, sus, asg, res):
        from . import model as M
        from .common import Discard
        for a in asg:
            cpu_, ram_ = a.cpu, a.ram
            if len(R.pipes) == 1 and R.cfg["pools"] == 1:
                # what the policy hands out when nothing else is around is known (C17/C18): the whole pool for naive and
                # the starter template, one CPU and the pool's RAM for overbook - the ticks "its operators need" are
                # the ticks on THOSE resources, whatever the Assignment object says afterwards
                if R.cfg["algo"] in ("naive", "template"):
                    cpu_, ram_ = R.cfg["cpus"], R.cfg["ram"]
                elif R.cfg["algo"] == "overbook":
                    cpu_, ram_ = 1, R.cfg["ram"]
            self.asg.append((R.tick, [R.okey(o) for o in a.ops], cpu_))
            self.by_ops = getattr(self, "by_ops", {})
            self.by_ops[id(a.ops)] = ([R.okey(o) for o in a.ops], cpu_, ram_)
            R.hold.append(a.ops)
        for r in res:
            if not r.failed():
                continue
            self.failed = True
            known = getattr(self, "by_ops", {}).get(id(r.ops))
            if known is None or len(R.pipes) != 1:
                continue
            # "with enough memory": a container whose allocation covers the largest demand of every operator it holds
            # must not fail
            keys, cpu, ram = known
            pd = R.scn["pipes"][0]
            try:
                peak = M.F(0)
                for (pi, oi) in keys:
                    segs = [(M.frac(b), law, None if mem is None else M.frac(mem), M.frac(read)) for (b, law, mem, read) in pd["ops"][oi]["segs"]]
                    op = M.MOp((0, oi), segs, [])
                    plan = M.op_plan(op, M.frac(cpu), R.cfg["tps"], M.Arith(False))
                    peak = max([peak] + [(m if m is not M.FREE else op.peak()) for m in plan])
            except Discard:
                continue
            if peak <= M.frac(float(ram)) * (1 - M.F(1, 10 ** 9)):
                raise Violation("C06.uncontended.failed_with_enough_memory", {
                    "algo": R.cfg["algo"], "error": r.error, "allocation": ram, "largest_demand": float(peak), "ops": [k[1] for k in keys]}, R.tick)

    def on_end(self, R, stats):
        from . import model as M
        from .common import Discard
        if getattr(self, "failed", False) or len(R.pipes) != 1:
            return
        p = R.pipes[0]
        rs = p.runtime_status()
        pd = R.scn["pipes"][0]
        tps = R.cfg["tps"]
        ar = M.Arith(False)
        need = 0
        seen = set()
        for (t, keys, cpu) in self.asg:
            for (pi, oi) in keys:
                segs = [(M.frac(b), law, None if mem is None else M.frac(mem), M.frac(read)) for (b, law, mem, read) in pd["ops"][oi]["segs"]]
                need += len(M.op_plan(M.MOp((0, oi), segs, []), M.frac(cpu), tps, ar))   # may raise Discard (band)
                seen.add(oi)
        if len(seen) != len(pd["ops"]):
            if rs.finish_tick is not None:
                raise Violation("C06.uncontended.finished_unassigned", {"assigned_ops": sorted(seen)}, R.tick)
            return
        if rs.finish_tick is None:
            if rs.arrival_tick + need <= R.tick:
                raise Violation("C06.uncontended.not_finished", {"arrival": rs.arrival_tick, "ticks_needed": need, "last_tick": R.tick,
                                                                 "algo": R.cfg["algo"]}, R.tick)
            return
        took = rs.finish_tick - rs.arrival_tick + 1
        R.probe("uncontended_checked")
        if took != need:
            raise Violation("C06.uncontended.ticks", {"algo": R.cfg["algo"], "multi": R.cfg["multi"], "took": took, "ticks_needed": need,
                                                      "cpus": [c for _, _, c in self.asg]}, R.tick)


class ModelOracle:
    """The exact reference model in lock-step with the real executor *inside run_simulator*: every command the real
    scheduler issues is given to the model as well, and pools, containers, memory, boundary flags, operator states and
    results are compared after every tick (same rules as the EX driver).  Stops judging (not the run) when a decision
    falls into the float band."""

    def __init__(self, cfg):
        from . import model as M
        self.M = M
        self.mex = M.MExec(cfg["pools"], cfg["cpus"], M.frac(float(cfg["ram"])) if not isinstance(cfg["ram"], int) else cfg["ram"],
                           cfg["tps"], cfg["over"], cfg["multi"], False)
        self.mex.ar.admission_follows_impl = True
        self.mops = {}       # id(real op) -> MOp
        self.lab = {}        # label -> MCont
        self.n = 0
        self.off = False
        self.built = []
        from .exdrv import Obs
        self.obs = Obs()

    def _ensure_ops(self, R):
        from eudoxia.workload.pipeline import Segment
        M = self.M
        names = {f: n for n, f in Segment.SCALING_FUNCS.items()}
        while len(self.built) < len(R.pipes):
            p = R.pipes[len(self.built)]
            b = type("B", (), {})()
            b.rops = list(p.values.node_lookup.values())
            b.mops = []
            for oi, o in enumerate(b.rops):
                segs = [(M.frac(float(g.baseline_cpu_seconds)), names.get(g.scaling_func), None if g.memory_gb is None else M.frac(float(g.memory_gb)),
                         M.frac(float(g.storage_read_gb))) for g in o.get_segments()]
                m = M.MOp((len(self.built), oi), segs, [self.mops[id(q)] for q in o.parents])
                self.mops[id(o)] = m
                b.mops.append(m)
            self.built.append(b)

    def on_tick(self, R, ex, sus, asg, res):
        if self.off:
            return
        from . import exdrv
        from .common import Discard
        M = self.M
        t = R.tick
        self._ensure_ops(R)
        try:
            byid = {rc.container_id: l for l, rc in self.obs.real.items()}
            msus = []
            for s in sus:
                l = byid.get(s.container_id)
                msus.append((s.pool_id, self.lab.get(l)))
            masg, rasg = [], []
            for a in asg:
                self.n += 1
                l = "s%d" % self.n
                mops = [self.mops[id(o)] for o in a.ops]
                for m in mops:
                    if m.state not in (M.P, M.FL):
                        raise Violation("C02.construct.accepted", {"op": m.key, "state": m.state}, t)
                    m.state = M.A
                mc = M.MCont(l, mops, M.frac(a.cpu) if not isinstance(a.cpu, float) else M.frac(a.cpu), M.frac(float(a.ram)), a.pool_id)
                self.lab[l] = mc
                masg.append(mc)
                rasg.append((l, a))
            exdrv._map_new_containers(ex, res, rasg, self.obs, t)
            self.obs.failed = {}
            byid = {rc.container_id: l for l, rc in self.obs.real.items()}
            for r_ in res:
                if r_.failed() and byid.get(r_.container_id) is not None:
                    self.obs.failed.setdefault(r_.pool_id, []).append(self.lab[byid[r_.container_id]])
            try:
                mres = self.mex.step(msus, masg, self.obs)
            except M.Reject as rj:
                raise Violation(exdrv.REJECT_RULE[rj.kind], {"kind": rj.kind, "pool": rj.pool, "info": str(rj.info),
                                                            "where": "decision of the shipped scheduler accepted by the executor"}, t)
            got = [(byid.get(r_.container_id, r_.container_id), r_.failed()) for r_ in res]
            want = [(c.label, bool(c.error)) for c in mres]
            if got != want:
                raise Violation("EX.results", {"got": got, "want": want}, t)
            exdrv._compare_pools(ex, self.mex, self.obs, t)
            exdrv._compare_states(self.built, t, "EX.states")
            R.probe("model_lockstep_ticks")
        except Discard as d:
            self.off = True
            R.probe("model_lockstep_stopped_in_band")
            R.probe("band:" + str(d))

    def on_end(self, R, stats):
        for k, v in self.mex.probes().items():
            R.probe("m_" + k, v)


class AdmissibilityOracle:
    """C08, second sentence, judged independently of the executor's own assertions: every decision of a shipped
    scheduler is checked against the state the scheduler saw."""

    def on_round(self, R, s, rd):
        ex = s.executor
        t = rd["tick"]
        n = ex.num_pools
        seen_ops = {}
        use = [[0.0, 0.0] for _ in range(n)]
        for a in rd["asg"]:
            if not (isinstance(a.pool_id, int) and 0 <= a.pool_id < n):
                raise Violation("C08.inadmissible.pool", {"pool": a.pool_id, "pipeline": a.pipeline_id}, t)
            use[a.pool_id][0] += a.cpu
            use[a.pool_id][1] += a.ram
            if not ex.pools[a.pool_id].multi_operator_containers and len(a.ops) != 1:
                # (known finding D3 surfaces as the executor's assertion; reported there with its exact signature)
                continue
            for k, o in enumerate(a.ops):
                if id(o) in seen_ops:
                    raise Violation("C08.inadmissible.assigned_twice", {"op": R.okey(o), "pipeline": a.pipeline_id}, t)
                seen_ops[id(o)] = True
                if id(o) not in rd["pre_ready"].get(o.pipeline.pipeline_id, ()):
                    # not ready before the round: admissible only behind its unfinished parents in the same container
                    st = o.pipeline.runtime_status().operator_states
                    for q in o.parents:
                        if st[q].value != "completed" and q not in a.ops[:k]:
                            raise Violation("C08.inadmissible.dependency_order", {"op": R.okey(o), "parent": R.okey(q),
                                                                                  "parent_state": st[q].value}, t)
        for i in range(n):
            pre_cpu, pre_ram = rd["pre"][i]
            if use[i][0] > pre_cpu * (1 + 1e-9) + 1e-12:
                raise Violation("C08.inadmissible.oversold_cpu", {"pool": i, "requested": use[i][0], "free": pre_cpu}, t)
            if not ex.pools[i].allow_memory_overcommit and use[i][1] > pre_ram * (1 + 1e-9) + 1e-12:
                raise Violation("C08.inadmissible.oversold_ram", {"pool": i, "requested": use[i][1], "free": pre_ram}, t)
        seen = set()
        for su in rd["sus"]:
            cs = rd["cansusp"].get(su.container_id)
            if cs is None or not cs[0] or cs[2] != su.pool_id or su.container_id in seen:
                raise Violation("C08.inadmissible.suspension", {"container": su.container_id, "pool": su.pool_id}, t)
            seen.add(su.container_id)
