"""CMP driver for C20: the real snap / jitter / sensitivity-sample tools on
temporary files.  multiprocessing.Pool and sensitivity_command are replaced
by in-process fakes (the fan-out of workers is simulated, not forked)."""
import contextlib
import csv
import io
import os
import shutil
import sys
import tempfile
from fractions import Fraction as F

from .common import Violation, import_repo, digest
from .model import frac, near
from .tracecmp import HEADER, LAWS, PRIOS, float_quotient_exceeds, _finite
from .exdrv import fstr


def make_rows(scn):
    """rows (list of dict) of an input trace, possibly with an extra column and awkward cells"""
    cols = HEADER.split(",") + (["note"] if scn.get("extra_col") else [])
    order = scn.get("col_order")
    if order == "arrival_last":
        cols = [c for c in cols if c != "arrival_seconds"] + ["arrival_seconds"]
    elif order == "extra_first" and scn.get("extra_col"):
        cols = ["note"] + [c for c in cols if c != "note"]
    elif order == "reversed":
        cols = cols[::-1]       # columns are found by their header names, in any order
    rows = []
    pid_of = []
    for j in range(len(scn["arrivals"])):
        k = int((scn.get("recur") or {}).get(str(j), j))
        if k >= j or (pid_of and pid_of[-1] == k):
            k = j               # (a minimised scenario may have lost the pipeline referred to; never adjacent)
        pid_of.append(k if k == j else pid_of[k] if k < len(pid_of) else j)
        if pid_of[-1] != j and pid_of[-2:-1] == [pid_of[-1]]:
            pid_of[-1] = j
    for j, (a, nops) in enumerate(zip(scn["arrivals"], scn["nops"])):
        if scn.get("sci") and (j % 2 == 0 or len(a.strip("0.-")) == 1):
            # the same number in exponent notation ('5e-05', '1.25e+1', '3E-4'): what float() and csv writers of other
            # tools produce for small values
            from decimal import Decimal
            m, _, e = format(Decimal(a).normalize(), "e").partition("e")
            a = "%s%s%s%02d" % (m, "E" if j % 4 == 0 else "e", "-" if int(e) < 0 else "+", abs(int(e)))
        for i in range(nops):
            r = {"pipeline_id": scn.get("id_prefix", "p") + str(pid_of[j] + 1),
                 "arrival_seconds": a if i == 0 else "",
                 "priority": PRIOS[(j + i) % 3] if i == 0 else "", "operator_id": "op%d" % (i + 1),
                 "parents": "op%d" % i if i else "", "baseline_cpu_seconds": ["15", "2.50", "1e1", "7"][(j + i) % 4],
                 "cpu_scaling": LAWS[(j * 3 + i) % 7], "memory_gb": ["", "0", "4.0"][(j + i) % 3],
                 "storage_read_gb": ["35", "0.10", "55.0"][(i + j) % 3]}
            if scn.get("extra_col"):
                r["note"] = ["", "a,b", 'say "hi"', "x y"][(i + j) % 4]
            rows.append(r)
    return cols, rows


def write_csv(path, cols, rows):
    with open(path, "w", newline="") as f:
        w = csv.DictWriter(f, fieldnames=cols)
        w.writeheader()
        for r in rows:
            w.writerow(r)


def read_csv(path):
    with open(path, newline="") as f:
        rd = csv.DictReader(f)
        return rd.fieldnames, list(rd)


@contextlib.contextmanager
def quiet():
    old = sys.stdout, sys.stderr
    sys.stdout = io.StringIO()
    sys.stderr = io.StringIO()
    try:
        yield
    finally:
        sys.stdout, sys.stderr = old


def same_but_arrival(cols, rin, rout, rule):
    if len(rin) != len(rout):
        raise Violation(rule + ".rows", {"rows_in": len(rin), "rows_out": len(rout)})
    for k, (a, b) in enumerate(zip(rin, rout)):
        for c in cols:
            if c == "arrival_seconds":
                if bool(a[c].strip()) != bool(b[c].strip()):
                    raise Violation(rule + ".cell", {"row": k, "column": c, "in": a[c], "out": b[c]})
                continue
            if a[c] != b.get(c):
                raise Violation(rule + ".cell", {"row": k, "column": c, "in": a[c], "out": b.get(c)})


def run_snap(scn):
    import_repo()
    from eudoxia.tools import snap_command
    out = {"violation": None, "discard": None, "faults": {}, "probes": {}, "ticks": 0, "nontrivial": True}
    tps = scn["tps"]
    d = tempfile.mkdtemp(prefix="verif_c20_")
    probes = {"on_grid": 0, "in_band_below": 0, "off_grid": 0}
    try:
        cols, rows = make_rows(scn)
        p_in, p1, p2 = (os.path.join(d, n) for n in ("in.csv", "s1.csv", "s2.csv"))
        write_csv(p_in, cols, rows)
        try:
            with quiet():
                _snap(scn, p_in, p1, tps)
                _snap(scn, p1, p2, tps)
        except (Exception, SystemExit) as e:  # noqa: BLE001
            raise Violation("C20.snap.raises", {"exc": repr(e)[:200], "tps": tps, "extra_col": bool(scn.get("extra_col"))})
        c1, r1 = read_csv(p1)
        if list(c1) != list(cols):
            raise Violation("C20.snap.columns", {"in": cols, "out": c1})
        same_but_arrival(cols, rows, r1, "C20.snap")
        for k, (a, b) in enumerate(zip(rows, r1)):
            if not a["arrival_seconds"]:
                continue
            A = frac(a["arrival_seconds"])
            o = frac(b["arrival_seconds"])
            x = A * tps
            kk = round(x)
            tol = max(F(1, 10 ** 9), F(abs(kk), 2 ** 44)) / tps
            if near(x, kk):
                acc = [F(kk, tps)]
                if x < kk:
                    acc.append(F(kk - 1, tps))
                    probes["in_band_below"] += 1
                else:
                    probes["on_grid"] += 1
                if not any(abs(o - v) <= tol for v in acc):
                    raise Violation("C20.snap.on_grid_moved", {"arrival": a["arrival_seconds"], "snapped": b["arrival_seconds"],
                                                               "tps": tps, "ticks": float(x), "moved_ticks": float((A - o) * tps)})
            else:
                probes["off_grid"] += 1
                want = F(x.numerator // x.denominator, tps)
                if abs(o - want) > tol:
                    raise Violation("C20.snap.value", {"arrival": a["arrival_seconds"], "snapped": b["arrival_seconds"],
                                                       "tps": tps, "want": float(want)})
                if o > A:
                    raise Violation("C20.snap.moved_up", {"arrival": a["arrival_seconds"], "snapped": b["arrival_seconds"], "tps": tps})
        with open(p1, "rb") as f1, open(p2, "rb") as f2:
            b1, b2 = f1.read(), f2.read()
        if b1 != b2:
            _, r2 = read_csv(p2)
            diff = next(((x["arrival_seconds"], y["arrival_seconds"]) for x, y in zip(r1, r2) if x != y), None)
            raise Violation("C20.snap.not_idempotent", {"tps": tps, "first_difference": diff})
        # the snapped trace replays every pipeline at floor(A * tps)
        from eudoxia.workload.csv_io import CSVWorkloadReader
        with open(p1) as f:
            wt = CSVWorkloadReader(f).get_workload(tps)
            firsts = [(a["arrival_seconds"], b["arrival_seconds"], a["pipeline_id"]) for a, b in zip(rows, r1) if a["arrival_seconds"]]
            last = max(int(frac(s) * tps) for _, s, _ in firsts) + 3
            if last <= 5000 and not scn.get("recur") and all(frac(x[0]) <= frac(y[0]) for x, y in zip(firsts, firsts[1:])):
                got = {}
                for t in range(last):
                    for p in wt.run_one_tick():
                        got[p.pipeline_id] = t
                for a_s, s_s, pid in firsts:
                    x = frac(a_s) * tps
                    kk = round(x)
                    acc = {kk, kk - 1} if (near(x, kk) and x < kk) else ({kk} if near(x, kk) else {x.numerator // x.denominator})
                    g = got.get(pid)
                    if g in acc:
                        continue
                    ks = round(frac(s_s) * tps)
                    if g == ks + 1 and ks in acc and float_quotient_exceeds(s_s, tps, ks):
                        probes["replay_late_known_D9"] = probes.get("replay_late_known_D9", 0) + 1
                        continue
                    raise Violation("C20.snap.replay_tick", {"arrival": a_s, "snapped": s_s, "tps": tps, "delivered": g, "want": sorted(acc)})
                probes["replayed"] = probes.get("replayed", 0) + 1
    except Violation as v:
        out["violation"] = v.to_json()
    finally:
        shutil.rmtree(d, ignore_errors=True)
    out["probes"] = probes
    out["faults"] = {k: v for k, v in probes.items() if k in ("on_grid", "in_band_below") and v}
    out["sig"] = digest([tps, scn["arrivals"]])
    return out



def _snap(scn, src, dst, tps):
    """the function, or the command line entry point (argument parsing and dispatch are part of `tools snap`)"""
    if scn.get("via_main"):
        from eudoxia.__main__ import main
        main(["tools", "snap", src, dst, str(tps), "-f"])
    else:
        from eudoxia.tools import snap_command
        snap_command(src, dst, tps, force=True)


def _jitter(scn, src, dst, delta, seed):
    if scn.get("via_main"):
        from eudoxia.__main__ import main
        main(["tools", "jitter", src, dst, repr(float(delta)), "-f"] + ([] if seed is None else ["-s", str(seed)]))
    else:
        from eudoxia.tools import jitter_command
        jitter_command(src, dst, delta, seed=seed, force=True)


def expand_big(scn):
    """size reach for the tools: tens of thousands of pipelines, described compactly (arrival k * step)"""
    b = scn["big"]
    step = frac(b["step"])
    arr = [fstr(step * k) for k in range(b["n"])]
    return dict(scn, arrivals=arr, nops=[1] * b["n"])


def run_jitter(scn):
    import_repo()
    from eudoxia.tools import jitter_command
    out = {"violation": None, "discard": None, "faults": {}, "probes": {}, "ticks": 0, "nontrivial": True}
    if scn.get("big") and "arrivals" not in scn:
        scn = expand_big(scn)
    delta = scn["delta"]
    seed = scn["seed"]
    d = tempfile.mkdtemp(prefix="verif_c20_")
    try:
        cols, rows = make_rows(scn)
        p_in, p1, p2, p3 = (os.path.join(d, n) for n in ("in.csv", "j1.csv", "j2.csv", "j3.csv"))
        write_csv(p_in, cols, rows)
        try:
            with quiet():
                _jitter(scn, p_in, p1, delta, seed)
                _jitter(scn, p_in, p2, delta, seed)
                # another seed; for seed 0 the documented default (42), which a falsy test would confuse it with
                other = 42 if seed == 0 else (42 if seed is None else seed) + 1 + scn.get("seed_step", 0)
                _jitter(scn, p_in, p3, delta, other)
        except (Exception, SystemExit) as e:  # noqa: BLE001
            raise Violation("C20.jitter.raises", {"exc": repr(e)[:200], "delta": delta, "extra_col": bool(scn.get("extra_col"))})
        with open(p1, "rb") as f1, open(p2, "rb") as f2, open(p3, "rb") as f3:
            b1, b2, b3 = f1.read(), f2.read(), f3.read()
        if b1 != b2:
            raise Violation("C20.jitter.not_reproducible", {"seed": seed, "delta": delta})
        npipes = len(scn["arrivals"])
        if npipes >= 20 and delta > 0 and b1 == b3:
            raise Violation("C20.jitter.seed_ignored", {"seed": seed, "delta": delta, "pipelines": npipes})
        c1, r1 = read_csv(p1)
        if list(c1) != list(cols):
            raise Violation("C20.jitter.columns", {"in": cols, "out": c1})
        if len(r1) != len(rows):
            raise Violation("C20.jitter.rows", {"rows_in": len(rows), "rows_out": len(r1)})
        # group rows by pipeline in both files
        def groups(rs):
            g, order = {}, []
            for r_ in rs:
                if r_["pipeline_id"] not in g:
                    g[r_["pipeline_id"]] = []
                    order.append(r_["pipeline_id"])
                g[r_["pipeline_id"]].append(r_)
            return g, order
        if scn.get("recur"):
            # a job name that comes back later in the trace is another pipeline (the reader groups adjacent rows):
            # pipelines are told apart by their rows, matched to the output by content and by the [0, delta] window
            def runs(rs):
                out_, cur = [], None
                for r_ in rs:
                    if r_["arrival_seconds"].strip() or cur is None:
                        cur = []
                        out_.append(cur)
                    cur.append(r_)
                return out_
            gi, go = runs(rows), runs(r1)
            if len(gi) != len(go):
                raise Violation("C20.jitter.pipelines", {"in": len(gi), "out": len(go), "ids_recur": True})
            sig = lambda g_: tuple(tuple((c, r_.get(c)) for c in cols if c != "arrival_seconds") for r_ in g_)
            dl = frac(repr(float(delta)))
            left = sorted(gi, key=lambda g_: frac(g_[0]["arrival_seconds"]))
            prev_o = None
            for g_ in go:
                o = frac(g_[0]["arrival_seconds"])
                if prev_o is not None and o < prev_o:
                    raise Violation("C20.jitter.not_sorted", {"arrivals_out": [float(prev_o), float(o)]})
                prev_o = o
                cand = [x for x in left if sig(x) == sig(g_)]
                if not cand:
                    raise Violation("C20.jitter.cell", {"pipeline": g_[0]["pipeline_id"], "why": "no input pipeline has these rows",
                                                         "ids_recur": True})
                tol = F(1, 10 ** 12) * max(1, abs(o))
                ok_ = [x for x in cand if -tol <= o - frac(x[0]["arrival_seconds"]) <= dl + tol]
                if not ok_:
                    raise Violation("C20.jitter.bounds", {"pipeline": g_[0]["pipeline_id"], "jittered": float(o), "delta": delta,
                                                          "candidates": [float(frac(x[0]["arrival_seconds"])) for x in cand][:5]})
                left.remove(ok_[0])
            out["probes"] = {"ids_recur": 1, "delta_zero": int(delta == 0)}
            out["faults"] = {k: v for k, v in out["probes"].items() if v}
            out["sig"] = digest([delta, seed, scn["arrivals"]])
            return out
        gin, oin = groups(rows)
        gout, oout = groups(r1)
        if sorted(oin) != sorted(oout):
            raise Violation("C20.jitter.pipelines", {"in": len(oin), "out": len(oout)})
        # rows of one pipeline stay together
        seen, prev = set(), None
        for r_ in r1:
            if r_["pipeline_id"] != prev:
                if r_["pipeline_id"] in seen:
                    raise Violation("C20.jitter.pipeline_split", {"pipeline": r_["pipeline_id"]})
                seen.add(r_["pipeline_id"])
                prev = r_["pipeline_id"]
        newa = {}
        for pid in oin:
            same_but_arrival(cols, gin[pid], gout[pid], "C20.jitter")
            A = frac(gin[pid][0]["arrival_seconds"])
            o = frac(gout[pid][0]["arrival_seconds"])
            tol = F(1, 10 ** 12) * max(1, abs(A))
            if o - A < -tol or o - A > frac(repr(float(delta))) + tol:
                raise Violation("C20.jitter.bounds", {"pipeline": pid, "arrival": float(A), "jittered": float(o), "delta": delta,
                                                      "added": float(o - A)})
            newa[pid] = o
        seq = [newa[p] for p in oout]
        if any(a > b for a, b in zip(seq, seq[1:])):
            raise Violation("C20.jitter.not_sorted", {"arrivals_out": [float(x) for x in seq[:20]]})
        pos = {p: i for i, p in enumerate(oin)}
        for a, b in zip(oout, oout[1:]):
            if newa[a] == newa[b] and pos[a] > pos[b]:
                raise Violation("C20.jitter.unstable", {"pipelines": [a, b], "arrival": float(newa[a])})
        out["probes"] = {"ties_out": sum(1 for a, b in zip(seq, seq[1:]) if a == b), "delta_zero": int(delta == 0),
                         "reordered": int(oin != oout)}
    except Violation as v:
        out["violation"] = v.to_json()
    finally:
        shutil.rmtree(d, ignore_errors=True)
    out["faults"] = {k: v for k, v in out["probes"].items() if v}
    out["sig"] = digest([delta, seed, scn["arrivals"]])
    return out


class FakePool:
    """in-process stand-in for multiprocessing.Pool: tasks run one after another
    in a seeded order (the order must not matter)."""
    order_seed = 0

    def __init__(self, processes=None):
        self.processes = processes

    def __enter__(self):
        return self

    def __exit__(self, *a):
        return False

    def map(self, fn, tasks):
        import random
        idx = list(range(len(tasks)))
        random.Random(FakePool.order_seed).shuffle(idx)
        res = [None] * len(tasks)
        for i in idx:
            # a worker process has its own stdout/stderr: what the task does to
            # them must not leak into the parent
            keep = sys.stdout, sys.stderr
            try:
                res[i] = fn(tasks[i])
            finally:
                sys.stdout, sys.stderr = keep
        return res


def run_sample(scn):
    import_repo()
    import eudoxia.tools as tools
    from eudoxia.workload import WorkloadGenerator
    from eudoxia.workload.csv_io import CSVWorkloadWriter, WorkloadTraceGenerator
    from eudoxia.simulator import parse_args_with_defaults
    import tomlkit
    out = {"violation": None, "discard": None, "faults": {}, "probes": {}, "ticks": 0, "nontrivial": True}
    params = scn["params"]
    n = scn["samples"]
    start = scn["start_seed"]
    d = tempfile.mkdtemp(prefix="verif_c20_")
    saved = (tools.multiprocessing, tools.sensitivity_command, sys.stdout, sys.stderr)
    calls = []

    class MP:
        Pool = FakePool

    def fake_sensitivity(params_file, workload, output_dir, jitter_seed=None):
        calls.append((os.path.basename(workload), jitter_seed))

    try:
        pfile = os.path.join(d, "params.toml")
        t = tomlkit.table()
        t.update(params)
        with open(pfile, "w") as f:
            tomlkit.dump(t, f)
        odir = os.path.join(d, "out")
        FakePool.order_seed = scn.get("order_seed", 0)
        tools.multiprocessing = MP
        tools.sensitivity_command = fake_sensitivity
        try:
            with quiet():
                if scn.get("via_main"):
                    from eudoxia.__main__ import main
                    main(["tools", "sensitivity-sample", pfile, odir, str(n), "--start-seed", str(start)]
                         + ([] if scn.get("jitter_seed") is None else ["--jitter-seed", str(scn["jitter_seed"])]))
                else:
                    tools.sensitivity_sample_command(pfile, odir, n, start_seed=start, jitter_seed=scn.get("jitter_seed"))
        finally:
            tools.multiprocessing, tools.sensitivity_command = saved[0], saved[1]
            sys.stdout, sys.stderr = saved[2], saved[3]
        if scn.get("rerun_same_dir"):
            # the same output directory is used again with other seeds: the workloads must be those of the new seeds
            start = start + 1000
            tools.multiprocessing = MP
            tools.sensitivity_command = fake_sensitivity
            calls.clear()
            try:
                with quiet():
                    tools.sensitivity_sample_command(pfile, odir, n, start_seed=start, jitter_seed=scn.get("jitter_seed"))
            finally:
                tools.multiprocessing, tools.sensitivity_command = saved[0], saved[1]
                sys.stdout, sys.stderr = saved[2], saved[3]
        texts = []
        for i in range(n):
            wf = os.path.join(odir, "w%d.csv" % i)
            if not os.path.exists(wf):
                log = ""
                lf = os.path.join(odir, "w%d.log" % i)
                if os.path.exists(lf):
                    log = open(lf).read()[-300:]
                raise Violation("C20.sample.missing", {"sample": i, "log": log})
            got = open(wf).read()
            full = parse_args_with_defaults(dict(params, random_seed=start + i))
            g = WorkloadGenerator(**full)
            f = io.StringIO()
            w = CSVWorkloadWriter(f)
            for row in WorkloadTraceGenerator(g, full["ticks_per_second"], full["duration"]).generate_rows():
                w.write_row(row)
            want = f.getvalue()
            if got.replace("\r\n", "\n") != want.replace("\r\n", "\n"):
                raise Violation("C20.sample.wrong_seed", {"sample": i, "start_seed": start, "expected_seed": start + i,
                                                          "rows_got": got.count("\n"), "rows_want": want.count("\n")})
            texts.append(got)
        # "different samples are different workloads" presupposes a workload in which the seed decides
        # something: two classes of probability >= 0.1 and >= 150 pipelines (agreement by chance < 0.82^150 ~ 1e-13)
        entropy = sum(1 for k in ("interactive_prob", "query_prob", "batch_prob") if params[k] >= 0.1) >= 2
        npipes = min(len(set(l.split(",")[0] for l in x.splitlines()[1:])) for x in texts) if texts else 0
        if n >= 2 and entropy and npipes >= 150:
            out["probes"]["samples_compared"] = 1
            for i in range(n):
                for j in range(i + 1, n):
                    if texts[i] == texts[j]:
                        raise Violation("C20.sample.identical", {"samples": [i, j]})
        if sorted(c[0] for c in calls) != sorted("w%d.csv" % i for i in range(n)):
            raise Violation("C20.sample.fanout", {"calls": [c[0] for c in calls], "samples": n})
        out["probes"]["samples"] = n
    except Violation as v:
        out["violation"] = v.to_json()
    finally:
        tools.multiprocessing, tools.sensitivity_command = saved[0], saved[1]
        sys.stdout, sys.stderr = saved[2], saved[3]
        shutil.rmtree(d, ignore_errors=True)
    out["sig"] = digest(scn)
    return out


def gen_scn(r, family, tier):
    if family == "bigjitter":
        n = r.choice([52000, 66000, 101000, 131000] if tier == "quick" else [52000, 101000, 131000, 263000])
        return {"kind": "jitter", "tps": r.choice([10, 100]), "big": {"n": n + r.randint(0, 3000), "step": r.choice(["0.01", "0.003", "0.25"])},
                "delta": r.choice([1.0, 2.0, 0.05]), "seed": r.choice([None, 7, r.randint(0, 10 ** 6)]), "seed_step": 1,
                "extra_col": False, "id_prefix": "p", "via_main": r.random() < 0.5}
    if family == "sample":
        from .tracecmp import gen_params
        p = gen_params(r)
        p.pop("random_seed", None)
        p["duration"] = min(p["duration"], 300.0)
        return {"kind": "sample", "params": p, "samples": r.randint(2, 5), "start_seed": r.choice([0, 1, 42, r.randint(0, 10 ** 6), r.randint(0, 10 ** 6), 2 ** 31 - 1, 2 ** 32 - 2, 2 ** 32 + r.randint(0, 50), 2 ** 63 - 1, 2 ** 64 + 7]),
                "jitter_seed": r.choice([None, 7]), "order_seed": r.randint(0, 99), "rerun_same_dir": r.random() < 0.4,
                "via_main": r.random() < 0.3}
    tps = r.choice([1, 2, 3, 5, 7, 10, 16, 30, 100, 100, 250, 1000, 10 ** 4, 10 ** 5])
    n = r.randint(1, 40)
    t = F(0)
    if r.random() < 0.35:
        # far into the run: tick numbers up to ~1e9, where the float product has few fractional bits left
        t = F(r.choice([10 ** 4, 10 ** 6, 2 ** 24, 5 * 10 ** 7, 10 ** 9]) + r.randint(0, 10 ** 6), tps)
    arrivals = []
    kind = r.choice(["grid", "off", "mixed", "floatgrid"])
    for _ in range(n):
        if arrivals and r.random() < 0.15:
            arrivals.append(arrivals[-1])
            continue
        k = int(t * tps) + r.randint(0, 60)
        if kind == "grid" or (kind == "mixed" and r.random() < 0.5):
            a = F(k, tps)
            s = fstr(a) if _finite(a) else repr(k / tps)
        elif kind == "floatgrid":
            s = repr(k * (1.0 / tps)) if r.random() < 0.5 else repr(k / tps)
        else:
            a = (F(k) + F(r.randint(1, 999999), 10 ** 6)) / tps
            s = fstr(a) if _finite(a) else ("%.10f" % float(a))
        if arrivals and frac(s) < frac(arrivals[-1]):
            s = arrivals[-1]
        arrivals.append(s)
        t = frac(s)
    sci = r.random() < 0.2
    if sci:
        # values that exponent notation writes without a decimal point: one significant digit
        extra = [fstr(F(r.randint(1, 9), 10 ** r.randint(1, 6)) + (int(frac(arrivals[0])) if r.random() < 0.3 else 0))
                 for _ in range(r.randint(1, 5))]
        arrivals = sorted(arrivals + extra, key=frac)
    scn = {"kind": family, "tps": tps, "arrivals": arrivals, "nops": [r.choice([1, 1, 2, 4]) for _ in arrivals],
           "extra_col": r.random() < 0.4, "id_prefix": r.choice(["p", "pipe-", "q"]), "via_main": r.random() < 0.3,
           "sci": sci, "col_order": r.choice([None, None, None, None, "arrival_last", "extra_first", "reversed"])}
    if r.random() < 0.2 and len(arrivals) >= 3:
        # a job name that comes back later in the trace (not adjacent): a pipeline of its own
        recur = {}
        ids = list(range(len(arrivals)))
        for j in range(2, len(arrivals)):
            if r.random() < 0.3:
                k = ids[r.randrange(0, j - 1)]
                if k != ids[j - 1]:           # never the id of the pipeline right before it (that would be one pipeline)
                    ids[j] = k
                    recur[str(j)] = k
        if recur:
            scn["recur"] = recur
    if family == "jitter":
        if r.random() < 0.35:
            # jitter must sort whatever it is given: also feed it traces that are not in arrival order
            idx = list(range(len(arrivals)))
            r.shuffle(idx)
            scn["arrivals"] = [arrivals[i] for i in idx]
            scn["nops"] = [scn["nops"][i] for i in idx]
            scn["unsorted_input"] = True
        scn["delta"] = r.choice([0, 0, 1e-6, 0.001, 0.5 / tps, 1 / tps, 1.0, 10.0])
        scn["seed"] = r.choice([None, 0, 0, 1, 42, r.randint(0, 10 ** 6), r.randint(0, 10 ** 6), 2 ** 32 - 1, 2 ** 32 + 5, 2 ** 64 + 1])
        scn["seed_step"] = r.randint(0, 5)
    return scn


# -- "reproducible for a given seed" also means: in another process, under another hash seed -----------------------
def jitter_digests(seed, n):
    import hashlib
    from .common import sub_rng
    import_repo()
    from eudoxia.tools import jitter_command
    out = []
    for i in range(n):
        r = sub_rng(seed, "C20", "jitter", i)
        scn = gen_scn(r, "jitter", "quick")
        if scn["delta"] == 0:
            scn["delta"] = 0.25
        d = tempfile.mkdtemp(prefix="verif_c20_")
        try:
            cols, rows = make_rows(scn)
            p_in, p1 = os.path.join(d, "in.csv"), os.path.join(d, "j.csv")
            write_csv(p_in, cols, rows)
            with quiet():
                jitter_command(p_in, p1, scn["delta"], seed=scn["seed"], force=True)
            out.append(hashlib.sha256(open(p1, "rb").read()).hexdigest()[:16])
        finally:
            shutil.rmtree(d, ignore_errors=True)
    return out


def fresh_jitter_digests(seed, n, hashseed):
    import json
    import subprocess
    from .common import VERIF_DIR
    env = dict(os.environ, PYTHONHASHSEED=str(hashseed))
    p = subprocess.run([os.path.join(VERIF_DIR, "check"), "selftest", "c20digest", str(seed), str(n)],
                       capture_output=True, text=True, timeout=900, env=env, cwd=VERIF_DIR)
    line = [l for l in p.stdout.splitlines() if l.startswith("DIGESTS ")]
    if p.returncode != 0 or not line:
        raise RuntimeError("fresh interpreter failed: " + (p.stdout + p.stderr)[-500:])
    return json.loads(line[0][8:])
