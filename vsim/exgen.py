"""Swarm generator for EX scenarios (DESIGN 2.2).  Everything is drawn from the
per-run PRNG before / while the run proceeds; the result is plain data."""
from fractions import Fraction as F

from .exdrv import fstr, Chaos

LAWS_EXACT = ("const", "linear3", "linear7", "squared", "exp")
LAWS_ALL = ("const", "log", "sqrt", "linear3", "linear7", "squared", "exp")

FAULT_FOCUS = {
    "C01": ["dep_pending_parent", "dep_order", "dep_late", "construct_completed", "construct_completed", "construct_assigned"],
    "C02": ["construct_completed", "construct_assigned", "construct_dup", "construct_cpu0", "construct_ram0",
            "construct_empty"],
    "C03": ["oversell_cpu", "oversell_ram", "oversell_cpu", "oversell_ram", "sus_not_boundary", "opcount", "opcount",
            "construct_ram0", "construct_cpu0"],
    "C04": ["oversell_ram", "oversell_ram", "oversell_during_writeout"],
    "C05": [],
    "C09": ["pool_range_asg", "pool_range_sus", "pool_range_asg"],
    "C10": ["sus_not_boundary", "sus_not_boundary", "sus_suspending", "sus_suspended", "sus_unknown",
            "sus_other_pool", "sus_twice", "oversell_during_writeout", "oversell_during_writeout", "construct_suspending",
            "construct_suspending"],
    "C11": [],
}


def dag_parents(r, n, shape):
    if n == 1:
        return [[]]
    if shape == "chain":
        return [[]] + [[i - 1] for i in range(1, n)]
    if shape == "fanout":
        return [[]] + [[0] for _ in range(1, n)]
    if shape == "fanin":
        return [[] for _ in range(n - 1)] + [list(range(n - 1))]
    if shape == "diamond":
        if n < 4:
            return [[]] + [[0] for _ in range(1, n)]
        return [[]] + [[0] for _ in range(1, n - 1)] + [list(range(1, n - 1))]
    if shape == "multiroot":
        k = r.randint(2, max(2, n - 1))
        return [[] for _ in range(k)] + [sorted(r.sample(range(i), r.randint(1, min(2, i)))) for i in range(k, n)]
    d = r.choice([0.2, 0.5, 0.8])
    return [[j for j in range(i) if r.random() < d] for i in range(n)]


def qty(r, exact, kinds=("zero", "tiny", "small", "mid", "big")):
    """A duration / size in tick units, as a Fraction."""
    k = r.choice(kinds)
    if k == "zero":
        return F(0)
    if k == "edge":
        # just below / above a whole number of ticks, far outside float rounding (floor() must still decide)
        eps = F(r.choice([3, 10, 100, 400, 4000, 10 ** 5]), 10 ** 9)
        return F(r.randint(1, 12)) + r.choice([-1, -1, 1]) * eps
    if k == "tiny":
        return r.choice([F(1, 4), F(1, 2), F(3, 4)]) if exact else r.choice([F(13, 100), F(1, 2), F(87, 100)])
    if k == "small":
        n = r.randint(1, 3)
    elif k == "mid":
        n = r.randint(4, 12)
    else:
        n = r.randint(13, 40)
    if exact:
        return F(n) + r.choice([0, 0, F(1, 2), F(1, 4)])
    return F(n) + r.choice([F(13, 100), F(37, 100), F(1, 2), F(71, 100), F(9, 10)])


def gen_hair(r, focus, tier="quick"):
    """A pool that crosses its capacity by a hair: fixed-memory containers whose demands add up to exactly the capacity
    plus one that needs 2^-30 .. 2^-40 GB.  Dyadic throughout, so every float operation is exact and 'exceeds' is strict."""
    tps = r.choice([1, 2, 4, 8])
    unit = F(20, tps)
    capq = r.choice([8, 16, 32, 64])
    cap = capq * unit
    T = r.randint(30, 80)
    cfg = {"tps": tps, "pools": 1, "cpus": 16, "ram": fstr(cap), "over": True, "multi": True, "exact": True, "ticks": T}
    parts = r.choice([[F(1, 2), F(1, 4), F(1, 4)], [F(1, 2), F(1, 2)], [F(3, 4), F(1, 8), F(1, 8)], [F(1, 4)] * 4, [F(1)]])
    hair = F(1, 2 ** r.choice([30, 36, 40])) * r.choice([1, 1, 3])     # (capacity < 2048 GB: ulp 2^-42, so the sums stay exact)
    mems = [p_ * cap for p_ in parts] + [hair]
    if r.random() < 0.3:
        mems[0] += hair          # the hair sits on a big container instead of being one of its own
        mems.pop()
    r.shuffle(mems)
    pipes = []
    for m in mems:
        dur = F(r.randint(T, 2 * T), tps)
        pipes.append({"prio": r.choice(["QUERY", "INTERACTIVE", "BATCH_PIPELINE"]), "at": r.randint(0, 3),
                      "ops": [{"par": [], "segs": [[fstr(dur), "const", fstr(m), "0"]]}]})
    knobs = {"p_asg": 0.8, "p_op": 1.0, "p_sus": 0, "retry": False, "cpus": ["1"], "alloc_w": [0, 0, 0, 1],
             "fault": None, "fault_tick": 0}
    return {"kind": "ex", "focus": focus, "cfg": cfg, "pipes": pipes, "knobs": knobs, "hair": True}


def gen_storm(r, focus, tier="quick"):
    """Event-count reach: one or two pools, hundreds of short multi-operator chains, every container suspended at every
    operator boundary and its rest assigned again - thousands of containers, results and finished suspensions per pool
    in a few hundred ticks (bounded histories, counters and per-pool lists that only long busy runs fill)."""
    tps = r.choice([1, 2, 4, 8])
    unit = F(20, tps)
    pools = r.choice([1, 1, 2])
    cpus = r.choice([64, 128])
    capq = r.choice([800, 1600])
    T = r.randint(250, 500) if tier == "quick" else r.randint(300, 1200)
    cfg = {"tps": tps, "pools": pools, "cpus": cpus, "ram": fstr(capq * unit), "over": r.random() < 0.3, "multi": True,
           "exact": True, "ticks": T}
    npipes = r.randint(450, 700) if tier == "quick" else r.randint(500, 1500)
    pipes = []
    for pi in range(npipes):
        nops = r.randint(3, 5)
        ops = []
        for oi in range(nops):
            b = F(r.choice([0, 0, 1]), tps)
            rq = F(r.choice([1, 1, 2]))
            ops.append({"par": [oi - 1] if oi else [], "segs": [[fstr(b), "const", None, fstr(rq * unit)]]})
        pipes.append({"prio": r.choice(["QUERY", "INTERACTIVE", "BATCH_PIPELINE"]), "at": r.randint(0, T // 3), "ops": ops})
    knobs = {"p_asg": 0.9, "p_op": 1.0, "p_sus": r.choice([0.7, 1.0]), "retry": True, "cpus": ["1"],
             "alloc_w": [8, 0, 1, 0], "fault": None, "fault_tick": 0}
    return {"kind": "ex", "focus": focus, "cfg": cfg, "pipes": pipes, "knobs": knobs, "storm": True}


def gen(r, focus, tier="quick"):
    exact = r.random() < 0.5
    if exact:
        tps = r.choice([1, 1, 2, 2, 4, 8, 16, 64, 1024])
    else:
        tps = r.choice([1, 2, 3, 3, 5, 7, 10, 10, 16, 30, 100, 250, 1000, 10 ** 4, 10 ** 5, 3000, 30000, 99999,
                        r.randint(2, 1000), r.randint(1000, 10 ** 5)])      # (any rate, not only divisors of a million)
    unit = F(20, tps)
    pools = r.choice([1, 1, 1, 2, 2, 3, 4]) if focus != "C09" else r.choice([1, 2, 2, 3, 4])
    cpus = r.choice([1, 2, 4, 8, 16, 64]) if exact else r.choice([1, 2, 3, 4, 6, 10, 16, 64, 64, 128])
    over = {"C11": True, "C04": r.random() < 0.6}.get(focus, r.random() < 0.35)
    multi = True if focus in ("C10", "C11") else r.random() < 0.7
    capq = r.choice([2, 4, 8, 8, 16, 16, 32, 64, 200])
    if focus == "C11":
        capq = r.choice([4, 8, 12, 16, 24, 32])
    ram = capq * unit if exact else capq * unit + F(r.choice([0, 3, 17, 250]), 1000) * unit
    T = r.randint(8, 120)
    if focus == "C04" and r.random() < 0.08:
        T = r.randint(300, 2000 if tier == "thorough" else 800)
    cfg = {"tps": tps, "pools": pools, "cpus": cpus, "ram": fstr(ram), "over": over, "multi": multi,
           "exact": exact, "ticks": T}
    laws = LAWS_EXACT if exact else LAWS_ALL
    npipes = r.randint(1, 6)
    if focus == "C05":
        npipes = r.randint(1, 2)
    if focus in ("C11", "C09"):
        npipes = r.randint(3, 10)
    size_kinds = r.choice([("zero", "tiny", "small", "mid"), ("small", "mid"), ("zero", "small", "mid", "big"),
                           ("tiny", "small"), ("small", "mid", "big")])
    if not exact and r.random() < (0.3 if focus == "C05" else 0.1):
        size_kinds = size_kinds + ("edge", "edge")
    grow_p = {"C11": 0.8, "C04": 0.6}.get(focus, r.choice([0.2, 0.5, 0.8]))
    pipes = []
    for pi in range(npipes):
        if pipes and r.random() < 0.15:
            clone = dict(pipes[r.randrange(len(pipes))])
            clone = {"prio": clone["prio"], "at": clone["at"], "ops": clone["ops"]}
            pipes.append(clone)   # identical twins give score ties and simultaneous events
            continue
        nops = r.randint(1, 5)
        shape = r.choice(["chain", "chain", "fanout", "fanin", "diamond", "multiroot", "random"])
        if focus == "C01" and r.random() < 0.06:
            nops, shape = r.choice([12, 14, 20]), "fanin"       # a sink behind many parents
        elif r.random() < 0.015:
            nops, shape = r.choice([30, 60, 100]), r.choice(["chain", "chain", "random"])     # far longer than the generator makes
        par = dag_parents(r, nops, shape)
        ops = []
        for oi in range(nops):
            segs = []
            for _ in range(r.choice([1, 1, 1, 2, 3]) if r.random() < 0.985 else r.choice([8, 20])):
                law = r.choice(laws)
                cq = qty(r, exact, size_kinds)
                mult = {"linear3": 3, "linear7": 7}.get(law, 1) if exact else 1
                b = cq * mult / tps
                rq = qty(r, exact, size_kinds)
                read = rq * unit
                if r.random() < grow_p:
                    mem = None
                else:
                    mq = r.choice([F(0), F(1, 2), F(1), F(2), F(3), F(4), F(8), F(16)])
                    if not exact and mq:
                        mq += F(r.choice([7, 31]), 1000)
                    mem = mq * unit
                segs.append([fstr(b), law, None if mem is None else fstr(mem), fstr(read)])
            ops.append({"par": par[oi], "segs": segs})
            if r.random() < 0.08:
                # one Segment object added two or three times to the operator
                ops[-1]["segs"] = [segs[0]] * r.choice([2, 3]) + segs[1:]
                ops[-1]["same_segment_object"] = True
        at = 0 if r.random() < 0.6 else r.randint(0, max(0, T // 2))
        pipes.append({"prio": r.choice(["QUERY", "INTERACTIVE", "BATCH_PIPELINE"]), "at": at, "ops": ops})
        if r.random() < 0.25:
            pipes[-1]["scratch_parents"] = True
    faults = FAULT_FOCUS.get(focus, [])
    pf = {"C04": 0.15, "C05": 0.05, "C11": 0.05}.get(focus, 0.5)
    fault = None
    if r.random() < pf:
        fault = r.choice(faults) if faults and r.random() < 0.8 else r.choice(Chaos.FAULTS)
    cpu_list = [c for c in ([1, 2, 4, 8, 16, 32, 64] if exact else [1, 2, 3, 4, 5, 7, 8, 13, 24, 63, 64, 100]) if c <= cpus] or [1]
    if not exact and r.random() < 0.15:
        cpu_list = cpu_list + [c for c in (F(3, 2), F(5, 2), F(7, 2), F(15, 2)) if c <= cpus]
    alloc_w = {"C11": [1, 0, 1, 6], "C04": [3, 3, 2, 3], "C10": [6, 1, 1, 1]}.get(
        focus, r.choice([[5, 2, 1, 1], [2, 4, 2, 1], [3, 1, 1, 3], [8, 1, 1, 0]]))
    knobs = {
        "p_asg": r.choice([0.15, 0.3, 0.5, 0.7, 0.9]),
        "p_op": r.choice([0.5, 0.8, 1.0]),
        "p_sus": {"C10": r.choice([0.3, 0.6, 1.0])}.get(focus, r.choice([0, 0, 0.2, 0.5, 1.0])),
        "retry": r.random() < 0.7,
        "cpus": [fstr(c) for c in cpu_list],
        "alloc_w": alloc_w,
        "fault": fault,
        "fault_tick": r.randint(0, max(1, int(T * 0.7))),
    }
    if r.random() < 0.02:
        # thousands of idle ticks before anything arrives (and before the fault): whatever a tick does to an empty pool
        # accumulates first
        gap = r.choice([1000, 1000, 5000, 20000])
        if focus in ("C03", "C04") and r.random() < (0.35 if tier == "quick" else 0.05):
            gap = 100000 - r.randint(1, max(2, T // 2))      # the busy part of the run straddles tick 100 000
        for p_ in pipes:
            p_["at"] += gap
        cfg["ticks"] = T + gap
        knobs["fault_tick"] += gap
    scn = {"kind": "ex", "focus": focus, "cfg": cfg, "pipes": pipes, "knobs": knobs}
    if r.random() < 0.15:
        scn["decoy_at"] = r.randint(1, max(1, T // 2))
    if r.random() < 0.25:
        scn["observe"] = r.randint(0, 10 ** 9)       # a bystander reads public state between the ticks
    return scn
