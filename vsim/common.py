"""Shared plumbing: repo import, seed derivation, JSON helpers.

Nothing in here draws entropy from anywhere but VERIF_SEED.
"""
import hashlib
import json
import logging
import os
import random
import sys
import warnings

VERIF_DIR = os.path.dirname(os.path.dirname(os.path.abspath(__file__)))
REPO = os.environ.get("VERIF_REPO", "/repo")
DEFAULT_SEED = 20260926

_imported = False


def import_repo():
    """Import eudoxia from VERIF_REPO's *working tree* (no build step exists;
    "rebuilding" is importing afresh in every check process)."""
    global _imported
    if _imported:
        return
    sys.dont_write_bytecode = True
    if sys.path[0] != REPO:
        sys.path.insert(0, REPO)
    warnings.filterwarnings("ignore")
    # eudoxia/__init__ configures DEBUG logging to stdout on import.
    logging.disable(logging.CRITICAL)
    import eudoxia  # noqa: F401
    got = os.path.dirname(os.path.dirname(os.path.abspath(eudoxia.__file__)))
    if os.path.realpath(got) != os.path.realpath(REPO):
        raise RuntimeError(f"eudoxia imported from {got}, wanted {REPO}")
    logging.disable(logging.CRITICAL)
    _imported = True


def seed_from_env():
    s = os.environ.get("VERIF_SEED", "")
    try:
        return int(s) if s.strip() else DEFAULT_SEED
    except ValueError:
        return DEFAULT_SEED


def sub_rng(seed, *labels):
    """One PRNG per (seed, property, family, run index): sha256 -> Random."""
    h = hashlib.sha256(("|".join([str(seed)] + [str(x) for x in labels])).encode()).digest()
    return random.Random(int.from_bytes(h[:16], "big"))


def digest(obj):
    return hashlib.sha256(json.dumps(obj, sort_keys=True, default=str).encode()).hexdigest()[:16]


def jdump(obj, path):
    tmp = path + ".tmp"
    with open(tmp, "w") as f:
        json.dump(obj, f, indent=1, sort_keys=True, default=str)
        f.write("\n")
    os.replace(tmp, path)


def jload(path):
    with open(path) as f:
        return json.load(f)


class Violation(Exception):
    """Raised by an oracle. rule is the stable identifier used for
    minimisation ("same rule still fails") and known-finding matching."""

    def __init__(self, rule, detail=None, tick=None):
        super().__init__(rule)
        self.rule = rule
        self.detail = detail if detail is not None else {}
        self.tick = tick

    def to_json(self):
        return {"rule": self.rule, "tick": self.tick, "detail": self.detail}


class Discard(Exception):
    """The scenario reached a decision the property leaves open (float
    ambiguity band, see DESIGN section 3); the run is dropped, not judged."""
