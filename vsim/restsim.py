"""C19: the REST scheduler over a simulated transport.  Real: rest.py, every
to_dict serialiser, reply parsing, the whole simulator.  Stub: the HTTP
transport (in-process, through a real JSON encode/decode in both directions),
the external scheduler (seeded policies that see only the JSON), and
time.perf_counter (seeded 'network latencies')."""
import json as jsonlib
import random

from .common import Violation, import_repo, digest
from . import sysdrv

OP_KEYS = {"id", "state", "is_assignable_state", "parents_complete"}
PIPE_KEYS = {"pipeline_id", "priority", "arrival_tick", "is_complete", "has_failures", "operators"}
CONT_KEYS = {"container_id", "pipeline_id", "operator_ids", "cpu", "ram_gb", "current_memory_gb", "priority"}
POOL_KEYS = {"pool_id", "max_cpu", "max_ram_gb", "avail_cpu", "avail_ram_gb", "consumed_ram_gb",
             "active_containers", "suspending_containers", "suspended_containers"}
RES_KEYS = {"ops", "cpu", "ram", "priority", "pool_id", "container_id", "error"}
REQ_KEYS = {"tick", "sim_time_seconds", "results", "new_pipelines", "other_pipelines", "pools"}


class Resp:
    def __init__(self, obj, status=200):
        self._b = jsonlib.dumps(obj)
        self.status_code = status

    def raise_for_status(self):
        if self.status_code >= 400:
            raise RuntimeError("HTTP %d" % self.status_code)

    def json(self):
        return jsonlib.loads(self._b)


class FakeClock:
    """time.perf_counter replacement: strictly increasing, advanced by seeded latencies"""

    def __init__(self, rng, mode):
        self.r = rng
        self.now = 1000.0
        self.mode = mode

    def perf_counter(self):
        lat = {"fast": 1e-6, "slow": self.r.choice([0.001, 0.2, 5.0]), "wild": self.r.choice([1e-9, 0.5, 60.0, 3600.0])}[self.mode]
        self.now += lat
        return self.now

    def __getattr__(self, name):
        import time
        return getattr(time, name)


class Server:
    """The external scheduler + the request oracles.  Policies see only the JSON."""

    def __init__(self, rng, policy, scn):
        self.r = rng
        self.policy = policy
        self.scn = scn
        self.cfg = scn["cfg"]
        self.calls = []          # (tick, idle)
        self.decisions = {}      # tick -> {"asg": [...], "sus": [...]}
        self.known = set()
        self.suspended_seen = {}
        self.tick_offset = None
        self.complete_reported = {}
        self.last_new = None
        self.last_payload_tick = None
        self.n_req = 0
        self.init_body = None
        self.probes = {}

    def probe(self, k, n=1):
        self.probes[k] = self.probes.get(k, 0) + n

    # -- transport ---------------------------------------------------------
    def post(self, url, json=None, **kw):
        body = jsonlib.loads(jsonlib.dumps(json, allow_nan=False))
        if url.endswith("/init"):
            self.init_body = body
            return Resp("OK")
        if not url.endswith("/schedule"):
            return Resp("not found", 404)
        self.check_request(body)
        reply = self.decide(body)
        return Resp(reply)

    # -- request oracles -----------------------------------------------------
    def check_request(self, body):
        R = sysdrv.REC
        t = R.tick
        ex = R.executor
        tps = self.cfg["tps"]
        self.n_req += 1
        if set(body) != REQ_KEYS:
            raise Violation("C19.request_keys", {"keys": sorted(body)}, t)
        if self.last_payload_tick is not None and body["tick"] <= self.last_payload_tick:
            raise Violation("C19.tick_not_increasing", {"tick": body["tick"], "previous": self.last_payload_tick}, t)
        self.last_payload_tick = body["tick"]
        # the call says which tick it is: the label moves in step with the simulation (whatever its origin), and the time
        # sent is that tick's time
        off = body["tick"] - t
        if self.tick_offset is None:
            self.tick_offset = off
        elif off != self.tick_offset:
            raise Violation("C19.tick_label", {"sent_tick": body["tick"], "simulation_tick": t, "offset_at_first_call": self.tick_offset}, t)
        if abs(body["sim_time_seconds"] - body["tick"] / tps) > 1e-9 * max(1.0, body["tick"] / tps) + 1.0 / tps * 1.000001 * 0:
            raise Violation("C19.tick_label", {"sent_tick": body["tick"], "sent_time": body["sim_time_seconds"], "ticks_per_second": tps}, t)
        # results of the last tick
        last = R.tick_results[-1] if R.tick_results else []
        want = [{"ops": [str(o.id) for o in r.ops], "cpu": r.cpu, "ram": r.ram, "priority": r.priority.name,
                 "pool_id": r.pool_id, "container_id": r.container_id, "error": r.error} for r in last]
        if body["results"] != jsonlib.loads(jsonlib.dumps(want)):
            raise Violation("C19.stale_results", {"sent": body["results"][:3], "last_tick": want[:3]}, t)
        for r in body["results"]:
            if set(r) != RES_KEYS:
                raise Violation("C19.leak", {"object": "result", "keys": sorted(r)}, t)
        # pools: independent read at call time
        if len(body["pools"]) != len(ex.pools):
            raise Violation("C19.pools", {"sent": len(body["pools"]), "have": len(ex.pools)}, t)
        for pj, pl in zip(body["pools"], ex.pools):
            if set(pj) != POOL_KEYS:
                raise Violation("C19.leak", {"object": "pool", "keys": sorted(pj)}, t)
            want = {"pool_id": pl.pool_id, "max_cpu": pl.max_cpu_pool, "max_ram_gb": pl.max_ram_pool,
                    "avail_cpu": pl.avail_cpu_pool, "avail_ram_gb": pl.avail_ram_pool, "consumed_ram_gb": pl.get_consumed_ram_gb()}
            for k, v in want.items():
                if pj[k] != jsonlib.loads(jsonlib.dumps(v)):
                    raise Violation("C19.pool_figures", {"pool": pl.pool_id, "field": k, "sent": pj[k], "true": v}, t)
            for name, lst in (("active_containers", pl.active_containers), ("suspending_containers", pl.suspending_containers),
                              ("suspended_containers", pl.suspended_containers)):
                if [c["container_id"] for c in pj[name]] != [c.container_id for c in lst]:
                    raise Violation("C19.container_lists", {"pool": pl.pool_id, "list": name,
                                                            "sent": [c["container_id"] for c in pj[name]],
                                                            "true": [c.container_id for c in lst]}, t)
                for cj, c in zip(pj[name], lst):
                    if set(cj) != CONT_KEYS:
                        raise Violation("C19.leak", {"object": "container", "keys": sorted(cj)}, t)
                    wantc = {"pipeline_id": c.get_pipeline_id(), "operator_ids": [str(o.id) for o in c.operators],
                             "cpu": c.assignment.cpu, "ram_gb": c.assignment.ram,
                             "current_memory_gb": c.get_current_memory_usage(), "priority": c.priority.name}
                    for k, v in wantc.items():
                        if cj[k] != jsonlib.loads(jsonlib.dumps(v)):
                            raise Violation("C19.container_figures", {"container": c.container_id, "field": k, "sent": cj[k], "true": v}, t)
        # a container that finished suspending stays suspended (nothing resumes a container; its work is assigned anew):
        # once listed, it is part of the state of every later call
        for pj in body["pools"]:
            now = [c["container_id"] for c in pj["suspended_containers"]]
            was = self.suspended_seen.setdefault(pj["pool_id"], [])
            gone = [c for c in was if c not in set(now)]
            if gone:
                raise Violation("C19.suspended_forgotten", {"pool": pj["pool_id"], "missing": gone[:5], "listed_before": len(was),
                                                            "listed_now": len(now)}, t)
            self.suspended_seen[pj["pool_id"]] = now
            if len(now) > 500:
                self.probes["suspended_over_500"] = 1
        # pipelines.  Identity is (pipeline_id, arrival_tick): a recurring job may use the id of a finished pipeline again
        key = lambda pj_: (pj_["pipeline_id"], pj_.get("arrival_tick"))
        newids = [p["pipeline_id"] for p in body["new_pipelines"]]
        newk = [key(p) for p in body["new_pipelines"]]
        oth = [key(p) for p in body["other_pipelines"]]
        if set(newk) & set(oth) or len(set(newk)) != len(newk) or len(set(oth)) != len(oth):
            raise Violation("C19.new_and_other_overlap", {"both": sorted(set(newk) & set(oth))[:5]}, t)
        arrivals = R.emitted[-1] if R.emitted else []
        if newids != arrivals:
            raise Violation("C19.new_not_arrivals", {"sent": newids[:8], "arrived_this_tick": arrivals[:8]}, t)
        real = {(p.pipeline_id, p.runtime_status().arrival_tick): p for p in R.pipes}
        for pj in body["new_pipelines"] + body["other_pipelines"]:
            if set(pj) != PIPE_KEYS:
                raise Violation("C19.leak", {"object": "pipeline", "keys": sorted(pj)}, t)
            if key(pj) not in real:
                same_id = [q for q in R.pipes if q.pipeline_id == pj["pipeline_id"]]
                if same_id:
                    raise Violation("C19.pipeline_flags", {"pipeline": pj["pipeline_id"], "sent": {"arrival_tick": pj["arrival_tick"]},
                                                           "true": {"arrival_tick": [q.runtime_status().arrival_tick for q in same_id]}}, t)
                raise Violation("C19.other_unknown", {"unknown": [pj["pipeline_id"]]}, t)
        if set(oth) - self.known:
            raise Violation("C19.other_unknown", {"unknown": sorted(set(oth) - self.known)[:5]}, t)
        if self.last_new is not None:
            for k_ in self.last_new:
                if k_ not in oth and k_ not in self.complete_reported:
                    raise Violation("C19.new_pipeline_forgotten", {"pipeline": k_[0], "arrived": k_[1]}, t)
        # every known unfinished pipeline keeps being reported until it was reported complete
        for k_ in sorted(self.known - set(self.complete_reported), key=str):
            if k_ not in oth:
                raise Violation("C19.known_pipeline_dropped", {"pipeline": k_[0], "arrived": k_[1]}, t)
        self.known |= set(newk)
        self.last_new = list(newk)
        for pj in body["new_pipelines"] + body["other_pipelines"]:
            pid = pj["pipeline_id"]
            if key(pj) in self.complete_reported:
                raise Violation("C19.reported_after_complete", {"pipeline": pid, "first_reported_complete_at": self.complete_reported[key(pj)]}, t)
            p = real[key(pj)]
            rs = p.runtime_status()
            ops = list(p.values)
            if [o["id"] for o in pj["operators"]] != [str(o.id) for o in ops]:
                raise Violation("C19.operator_list", {"pipeline": pid}, t)
            for oj, o in zip(pj["operators"], ops):
                if set(oj) != OP_KEYS:
                    raise Violation("C19.leak", {"object": "operator", "keys": sorted(oj)}, t)
                st = rs.operator_states[o]
                pc = all(rs.operator_states[q].value == "completed" for q in o.parents)
                wanto = {"state": st.value, "is_assignable_state": st.value in ("pending", "failed"), "parents_complete": pc}
                for k, v in wanto.items():
                    if oj[k] != v:
                        raise Violation("C19.operator_state", {"pipeline": pid, "field": k, "sent": oj[k], "true": v}, t)
            comp = all(s.value == "completed" for s in rs.operator_states.values())
            hf = any(s.value == "failed" for s in rs.operator_states.values())
            if pj["is_complete"] != comp or pj["has_failures"] != hf or pj["priority"] != p.priority.name \
                    or pj["arrival_tick"] != rs.arrival_tick:
                raise Violation("C19.pipeline_flags", {"pipeline": pid, "sent": {k: pj[k] for k in ("is_complete", "has_failures", "priority", "arrival_tick")},
                                                       "true": {"is_complete": comp, "has_failures": hf, "priority": p.priority.name,
                                                                "arrival_tick": rs.arrival_tick}}, t)
            if pj["is_complete"]:
                self.complete_reported[key(pj)] = t
                self.probe("complete_reported")
        # call discipline
        idle = not body["results"] and not body["new_pipelines"]
        if idle and self.calls:
            gap = (t - self.calls[-1][0]) / tps
            poll = self.cfg["rest_poll_interval"]
            if gap < poll * (1 - 1e-9) - 1e-12:
                raise Violation("C19.poll_too_soon", {"gap_seconds": gap, "poll_interval": poll, "tick": t}, t)
            self.probe("idle_call")
        self.calls.append((t, idle))

    # -- policies -----------------------------------------------------------------
    def decide(self, body):
        R = sysdrv.REC
        r = self.r
        asg, sus = [], []
        allp = body["new_pipelines"] + body["other_pipelines"]
        if self.policy == "gonaive":
            assigned = set()
            for pool in body["pools"]:
                if pool["avail_cpu"] <= 0 or pool["avail_ram_gb"] <= 0:
                    continue
                found = False
                for p in allp:
                    if p["is_complete"] or p["has_failures"]:
                        continue
                    for op in p["operators"]:
                        if not op["is_assignable_state"] or not op["parents_complete"] or op["id"] in assigned:
                            continue
                        asg.append({"operator_ids": [op["id"]], "cpu": pool["avail_cpu"], "ram_gb": pool["avail_ram_gb"],
                                    "pool_id": pool["pool_id"], "priority": p["priority"], "is_resume": False, "force_run": False})
                        assigned.add(op["id"])
                        found = True
                        break
                    if found:
                        break
        else:
            k = self.scn["policy_knobs"]
            # admissible suspensions (admissibility is not in the payload: taken from the harness's view)
            cs = {c.container_id: c for pl in R.executor.pools for c in pl.active_containers}
            for pool in body["pools"]:
                for cj in pool["active_containers"]:
                    c = cs.get(cj["container_id"])
                    if c is not None and c.can_suspend_container() and r.random() < k["p_sus"]:
                        sus.append({"container_id": cj["container_id"], "pool_id": pool["pool_id"]})
            taken = set()
            pools = list(body["pools"])
            r.shuffle(pools)
            for pool in pools:
                cpu_left, ram_left = pool["avail_cpu"], pool["avail_ram_gb"]
                for _ in range(k["per_pool"]):
                    if cpu_left < 1 or ram_left <= 0 or r.random() > k["p_asg"]:
                        break
                    cand = [p for p in allp if not p["is_complete"] and (k["retry"] or not p["has_failures"])]
                    if not cand:
                        break
                    p = r.choice(cand)
                    ready = [o["id"] for o in p["operators"] if o["is_assignable_state"] and o["parents_complete"] and o["id"] not in taken]
                    if not ready:
                        continue
                    n = 1 if not self.cfg["multi"] else r.randint(1, len(ready))
                    ops = ready[:n]
                    if self.cfg["multi"] and k.get("chains") and r.random() < k.get("chain_p", 0.6):
                        # a dependency-closed list: children ride behind their parents in one container, as the in-process
                        # schedulers do (the DAG is not in the payload: known to this scheduler out of band)
                        real = next((q for q in R.pipes if q.pipeline_id == p["pipeline_id"]
                                     and q.runtime_status().arrival_tick == p["arrival_tick"]), None)
                        if real is not None:
                            st = {str(o.id): o for o in real.values}
                            chosen = list(ops[:1])
                            for oj in p["operators"]:
                                o = st.get(oj["id"])
                                if o is None or oj["id"] in chosen or oj["id"] in taken or not oj["is_assignable_state"]:
                                    continue
                                if all(str(q.id) in chosen or real.runtime_status().operator_states[q].value == "completed"
                                       for q in o.parents) and r.random() < max(0.8, k.get("chain_p", 0)):
                                    chosen.append(oj["id"])
                            ops = chosen
                            self.probe("chain_container", int(len(ops) > 1))
                    if self.cfg["multi"] and k.get("mixed") and r.random() < 0.3 and len(cand) > 1:
                        # one container for operators of two pipelines: the executor supports it, so an external
                        # scheduler may do it - a pipeline can then complete in a tick in which no container ends
                        p2 = r.choice([x for x in cand if x is not p])
                        ops = ops + [o["id"] for o in p2["operators"] if o["is_assignable_state"] and o["parents_complete"]
                                     and o["id"] not in taken][:2]
                        self.probe("mixed_pipeline_container")
                    cpu = 1 if k.get("one_cpu") else r.randint(1, max(1, int(cpu_left)))
                    if k.get("fractional_cpu") and r.random() < 0.4:
                        cpu = r.choice([c for c in (0.5, 1.25, 1.5, 2.75) if c <= cpu_left] or [cpu])
                    ram = ram_left * r.choice([0.1, 0.25, 0.5, 1.0]) if not k.get("one_cpu") else min(ram_left, pool["max_ram_gb"] / 256)
                    if ram <= 0:
                        break
                    taken.update(ops)
                    cpu_left -= cpu
                    ram_left -= ram
                    prio = p["priority"]
                    if k.get("own_priorities") and r.random() < 0.4:
                        # the reply decides the container's priority; nothing ties it to the pipeline's class
                        prio = r.choice(["QUERY", "INTERACTIVE", "BATCH_PIPELINE"])
                        self.probe("priority_differs_from_pipeline", int(prio != p["priority"]))
                    asg.append({"operator_ids": ops, "cpu": cpu, "ram_gb": ram, "pool_id": pool["pool_id"],
                                "priority": prio, "is_resume": bool(r.random() < 0.2), "force_run": bool(k.get("own_priorities") and r.random() < 0.15)})
                # keep the batch admissible under float addition (the quantifier is over admissible decisions)
                mine = [a for a in asg if a["pool_id"] == pool["pool_id"]]
                while mine and not self.cfg["over"]:
                    tot = 0
                    for a in mine:
                        tot += a["ram_gb"]
                    if tot <= pool["avail_ram_gb"]:
                        break
                    mine[-1]["ram_gb"] *= 0.999
        if asg or sus:
            idx = R.op_index
            real_ops = {str(o.id): idx[id(o)] for p in R.pipes for o in p.values if id(o) in idx}
            conts = {c.container_id: c for pl in R.executor.pools for c in pl.active_containers}
            self.decisions[R.tick] = {
                "asg": [([list(real_ops[i]) for i in a["operator_ids"]], a["cpu"], a["ram_gb"], a["pool_id"], a["priority"],
                         a["is_resume"], a["force_run"]) for a in asg],
                "sus": [(list(real_ops[str(conts[s_["container_id"]].operators[0].id)]), s_["pool_id"]) for s_ in sus]}
            if sus:
                self.probe("suspensions_decided", len(sus))
        return {"suspensions": sus, "assignments": asg}

    def after_run(self, R):
        last = R.tick
        for p in R.pipes:
            ft = p.runtime_status().finish_tick
            if ft is not None and ft < last - 1 and (p.pipeline_id, p.runtime_status().arrival_tick) not in self.complete_reported:
                if any(c[0] > ft for c in self.calls):
                    raise Violation("C19.completion_never_reported", {"pipeline": p.pipeline_id, "finished_at": ft,
                                                                     "calls_after": [c[0] for c in self.calls if c[0] > ft][:5]}, last)
        # a call is made whenever something arrived or finished
        called = {c[0] for c in self.calls}
        for t in range(last + 1):
            had_results = t > 0 and bool(R.tick_results[t - 1]) if t - 1 < len(R.tick_results) else False
            arrived = bool(R.emitted[t]) if t < len(R.emitted) else False
            if (had_results or arrived) and t not in called:
                raise Violation("C19.call_missing", {"tick": t, "arrivals": arrived, "results": had_results}, t)


_replay_registered = False
REPLAY = {"decisions": {}}


def ensure_replay_scheduler():
    """In-process scheduler (registered through the public decorators) that
    replays a recorded decision sequence symbolically."""
    global _replay_registered
    if _replay_registered:
        return
    import_repo()
    from eudoxia.scheduler.decorators import register_scheduler, register_scheduler_init
    from eudoxia.executor.assignment import Assignment, Suspend
    from eudoxia.utils import Priority

    @register_scheduler_init(key="verifreplay")
    def rinit(s):
        s.vt = -1

    @register_scheduler(key="verifreplay")
    def rstep(s, results, pipelines):
        s.vt += 1
        R = sysdrv.REC
        dec = REPLAY["decisions"].get(R.tick)
        if not dec:
            return [], []
        ops = {}
        for p in R.pipes:
            for o in p.values:
                k = R.op_index.get(id(o))
                if k is not None:
                    ops[tuple(k)] = o
        sus = []
        for (okey, pool) in dec["sus"]:
            o = ops[tuple(okey)]
            c = next(c for pl in s.executor.pools for c in pl.active_containers if c.operators and c.operators[0] is o)
            sus.append(Suspend(c.container_id, pool))
        asg = []
        for (okeys, cpu, ram, pool, prio, is_resume, force_run) in dec["asg"]:
            ol = [ops[tuple(k)] for k in okeys]
            asg.append(Assignment(ops=ol, cpu=cpu, ram=ram, priority=Priority[prio], pool_id=pool,
                                  pipeline_id=ol[0].pipeline.pipeline_id, is_resume=is_resume, force_run=force_run))
        return sus, asg

    _replay_registered = True


def run_rest(scn):
    import_repo()
    import eudoxia.scheduler.rest as rest
    from .repro import stats_canon, first_difference
    out = {"violation": None, "discard": None, "faults": {}, "probes": {}, "ticks": 0, "nontrivial": False}
    rng = random.Random(scn["policy_seed"])
    srv = Server(rng, scn["policy"], scn)
    saved = (rest.requests, rest.time)

    class Transport:
        post = staticmethod(srv.post)

    rest.requests = Transport
    rest.time = FakeClock(random.Random(scn["policy_seed"] + 1), scn.get("latency", "fast"))
    try:
        s1 = dict(scn, cfg=dict(scn["cfg"], algo="rest"))
        o1, rec1, st1 = sysdrv.run(s1, oracles=(), keep_rounds=False)
        if o1["violation"] is None:
            try:
                srv.after_run(rec1)
            except Violation as v:
                o1["violation"] = v.to_json()
    finally:
        rest.requests, rest.time = saved
    out.update({k: o1[k] for k in ("ticks", "sig", "nontrivial", "sim_s")})
    out["probes"] = dict(o1["probes"], requests=srv.n_req, **srv.probes)
    out["faults"] = {"network_latency_" + scn.get("latency", "fast"): 1}
    if srv.probes.get("suspensions_decided"):
        out["faults"]["external_suspension"] = srv.probes["suspensions_decided"]
        out["nontrivial"] = True
    if o1["violation"]:
        v = o1["violation"]
        if v["rule"] == "C08.raises":
            # a crash of the bridge itself is a C19 matter when it comes out of rest.py / serialisers
            v = dict(v, rule="C19.raises")
        out["violation"] = v
        return out
    # transparency: the same decisions made by an in-process scheduler
    ensure_replay_scheduler()
    REPLAY["decisions"] = srv.decisions
    s2 = dict(scn, cfg=dict(scn["cfg"], algo="verifreplay"))
    o2, rec2, st2 = sysdrv.run(s2, oracles=(), keep_rounds=False)
    if o2["violation"]:
        out["violation"] = Violation("C19.twin_failed", {"twin": o2["violation"]}).to_json()
        return out
    if digest(rec1.canon) != digest(rec2.canon):
        out["violation"] = Violation("C19.not_transparent.log", {"first_difference": first_difference(rec1, rec2)}).to_json()
    elif stats_canon(st1) != stats_canon(st2):
        out["violation"] = Violation("C19.not_transparent.stats", {"rest": stats_canon(st1), "in_process": stats_canon(st2)}).to_json()
    out["ticks"] = o1["ticks"] * 2
    out["sim_s"] = o1["sim_s"] * 2
    return out


def gen_storm(r, tier):
    """count reach over REST: several hundred two-operator chains in one pool, every container suspended at its operator
    boundary by the external scheduler, the rest assigned again"""
    from fractions import Fraction as F
    from .exdrv import fstr
    tps = r.choice([1, 2, 10])
    unit = F(20, tps)
    n = r.randint(560, 800) if tier == "quick" else r.randint(600, 1500)
    per_tick = r.choice([10, 20])
    nticks = n // per_tick + 40
    cfg = {"algo": "naive", "tps": tps, "duration": float(F(nticks, tps)), "pools": 1, "cpus": 128, "ram": int(4000 * unit) if (4000 * unit).denominator == 1 else float(4000 * unit),
           "multi": True, "over": False, "rest_poll_interval": float(F(1, tps)), "rest_scheduler_addr": "sim.invalid:1"}
    small = fstr(unit / 4)
    pipes = []
    for k in range(n):
        ops = [{"par": [], "segs": [[fstr(F(1, tps)), "const", small, "0"]]},
               {"par": [0], "segs": [[fstr(F(1, tps)), "const", small, "0"]]}]
        pipes.append({"prio": r.choice(["QUERY", "INTERACTIVE", "BATCH_PIPELINE"]), "at": k // per_tick, "id": "p%d" % (k + 1), "ops": ops})
    return {"kind": "rest", "cfg": cfg, "pipes": pipes, "policy": "random", "policy_seed": r.randint(0, 10 ** 9), "latency": "fast",
            "policy_knobs": {"p_asg": 1.0, "p_sus": 1.0, "per_pool": 64, "retry": True, "fractional_cpu": False, "mixed": False,
                             "own_priorities": False, "chains": True, "one_cpu": True, "chain_p": 1.0}}


def gen_scn(r, tier):
    from . import sysgen
    scn = sysgen.gen(r, "naive", "C19", tier)
    cfg = scn["cfg"]
    # every call carries every unfinished pipeline: keep runs small, make many of them
    nt = int(cfg["duration"] * cfg["tps"])
    if nt > 120:
        nt = r.randint(30, 120)
        cfg["duration"] = nt / cfg["tps"]
    scn["pipes"] = [p for p in scn["pipes"] if p["at"] < max(nt, 1)][:15]
    cfg["over"] = r.random() < 0.3
    tps = cfg["tps"]
    cfg["rest_poll_interval"] = r.choice([0.5 / tps, 1 / tps, 3 / tps, 10 / tps, 0.1, 1.0, 2.5, 1000.0, 0])
    cfg["rest_scheduler_addr"] = "sim.invalid:1"
    scn["kind"] = "rest"
    if r.random() < 0.3:
        scn["reuse_ids"] = True               # recurring jobs: the id of a finished pipeline comes back
        scn["reuse_seed"] = r.randint(0, 10 ** 6)
    scn["policy"] = r.choice(["gonaive", "random", "random", "random"])
    scn["policy_seed"] = r.randint(0, 10 ** 9)
    scn["latency"] = r.choice(["fast", "slow", "wild"])
    scn["policy_knobs"] = {"p_asg": r.choice([0.3, 0.7, 1.0]), "p_sus": r.choice([0, 0.3, 1.0]),
                           "per_pool": r.choice([1, 2, 4]), "retry": r.random() < 0.6, "fractional_cpu": r.random() < 0.3,
                           "mixed": r.random() < 0.4, "own_priorities": r.random() < 0.4, "chains": r.random() < 0.4}
    return scn


# ---------------------------------------------------------------------------
# auxiliary static check: go/eudoxia/types.go against the keys the Python side emits / accepts
# ---------------------------------------------------------------------------
def go_types_crossread():
    import os
    import re
    from .common import REPO
    path = os.path.join(REPO, "go", "eudoxia", "types.go")
    if not os.path.exists(path):
        return {"skipped": "go/eudoxia/types.go not found"}, []
    src = open(path).read()
    structs = {}
    for m in re.finditer(r"type\s+(\w+)\s+struct\s*\{(.*?)\n\}", src, re.S):
        structs[m.group(1)] = set(re.findall(r'json:"([^",]+)', m.group(2)))
    want = {"ScheduleRequest": REQ_KEYS, "Pipeline": PIPE_KEYS, "Operator": OP_KEYS, "Pool": POOL_KEYS,
            "Container": CONT_KEYS, "ExecutionResult": RES_KEYS,
            "Assignment": {"operator_ids", "cpu", "ram_gb", "pool_id", "priority", "is_resume", "force_run"},
            "Suspension": {"container_id", "pool_id"}, "ScheduleResponse": {"suspensions", "assignments"}}
    viol = []
    checked = 0
    for name, keys in want.items():
        got = structs.get(name)
        if got is None:
            continue
        checked += 1
        if got != set(keys):
            viol.append({"idx": checked, "family": "gotypes", "scenario": None,
                         "violation": Violation("C19.go_types_mismatch", {"struct": name, "go_only": sorted(got - set(keys)),
                                                                          "python_only": sorted(set(keys) - got)}).to_json()})
    return {"structs_compared": checked, "mismatches": len(viol),
            "note": "static cross-read of json tags; the Go reference scheduler itself is not executed (no toolchain)"}, viol
