"""Scenario minimiser: structural delta debugging on the scenario data.  A
candidate is kept only if re-execution yields a violation with the same rule."""
import copy


def _drop_pipeline(scn, k):
    s = copy.deepcopy(scn)
    del s["pipes"][k]
    if "script" in s:
        dead = set()
        for tick in s["script"]:
            keep = []
            for c in tick:
                if c["k"] == "asg":
                    if c["pl"] == k:
                        dead.add(c["id"])
                        continue
                    if c["pl"] > k:
                        c["pl"] -= 1
                keep.append(c)
            tick[:] = keep
        for tick in s["script"]:
            tick[:] = [c for c in tick if not (c["k"] == "sus" and c["ref"] in dead and not c.get("fault"))]
    return s


def _drop_op(scn, k, j):
    s = copy.deepcopy(scn)
    ops = s["pipes"][k]["ops"]
    if len(ops) <= 1:
        return None
    gone = ops[j]
    del ops[j]
    for o in ops:
        par = []
        for q in o.get("par", []):
            if q == j:
                par.extend(gone.get("par", []))   # re-wire grandparents
            else:
                par.append(q)
        o["par"] = sorted(set(q - 1 if q > j else q for q in par))
    if "script" in s:
        for tick in s["script"]:
            for c in tick:
                if c["k"] == "asg" and c["pl"] == k:
                    c["ops"] = [i - 1 if i > j else i for i in c["ops"] if i != j or c.get("fault")]
            tick[:] = [c for c in tick if not (c["k"] == "asg" and c["pl"] == k and not c["ops"] and not c.get("fault"))]
    return s


def _drop_seg(scn, k, j, g):
    s = copy.deepcopy(scn)
    segs = s["pipes"][k]["ops"][j]["segs"]
    if len(segs) <= 1:
        return None
    del segs[g]
    return s


def candidates(scn):
    """Yield smaller scenarios, most aggressive first."""
    if "script" in scn:
        # a long idle stretch at the start: cut it in half (one empty tick at a time would take for ever)
        lead = 0
        while lead < len(scn["script"]) and not scn["script"][lead]:
            lead += 1
        cut = lead // 2
        if cut >= 16:
            s = copy.deepcopy(scn)
            del s["script"][:cut]
            s["cfg"]["ticks"] = max(1, s["cfg"]["ticks"] - cut)
            for p in s["pipes"]:
                p["at"] = max(0, p.get("at", 0) - cut)
            if s.get("decoy_at") is not None:
                s["decoy_at"] = max(0, s["decoy_at"] - cut)
            yield s
        n = len(scn["script"])
        # drop whole ticks' commands (keep timing), then single commands
        for t in range(n):
            if scn["script"][t]:
                nf = [c for c in scn["script"][t] if c.get("fault")]
                if len(nf) != len(scn["script"][t]):
                    s = copy.deepcopy(scn)
                    s["script"][t] = nf
                    yield s
    npipes = len(scn.get("pipes", []))
    # delta debugging on the pipeline list: halves, quarters, ... then single pipelines
    size = npipes // 2
    while size >= 2:
        for lo in range(0, npipes, size):
            idx = list(range(lo, min(npipes, lo + size)))
            if len(idx) < npipes:
                s = scn
                for k in reversed(idx):
                    s = _drop_pipeline(s, k)
                yield s
        size //= 2
    for k in range(npipes - 1, -1, -1):
        if npipes > 1:
            yield _drop_pipeline(scn, k)
    if "script" in scn:
        for t in range(len(scn["script"])):
            for i in range(len(scn["script"][t])):
                if scn["script"][t][i].get("fault"):
                    continue
                s = copy.deepcopy(scn)
                del s["script"][t][i]
                yield s
        # remove an empty tick (shifts time)
        for t in range(len(scn["script"]) - 1):
            if not scn["script"][t]:
                s = copy.deepcopy(scn)
                del s["script"][t]
                s["cfg"]["ticks"] = max(1, s["cfg"]["ticks"] - 1)
                for p in s["pipes"]:
                    if p.get("at", 0) > t:
                        p["at"] -= 1
                yield s
    for k in range(len(scn.get("pipes", []))):
        ops = scn["pipes"][k]["ops"]
        for j in range(len(ops) - 1, -1, -1):
            c = _drop_op(scn, k, j)
            if c is not None:
                yield c
        for j in range(len(ops)):
            for g in range(len(ops[j]["segs"]) - 1, -1, -1):
                c = _drop_seg(scn, k, j, g)
                if c is not None:
                    yield c
    for k in range(len(scn.get("pipes", []))):
        if scn["pipes"][k].get("at", 0) > 0:
            s = copy.deepcopy(scn)
            s["pipes"][k]["at"] = 0
            yield s


def shrink(scn, rule, execute, budget=300, extra_candidates=None, seconds=150):
    """execute(scn) -> outcome dict with outcome['violation'] (or None).  Bounded by a number of re-executions and by
    wall-clock time (a scenario of 100 000 ticks takes half a minute per attempt)."""
    import time
    t_end = time.time() + seconds
    best = scn
    used = 0
    progress = True
    while progress and used < budget and time.time() < t_end:
        progress = False
        gens = [candidates(best)]
        if extra_candidates is not None:
            gens.append(extra_candidates(best))
        for g in gens:
            for cand in g:
                if cand is None:
                    continue
                if used >= budget or time.time() >= t_end:
                    break
                used += 1
                try:
                    out = execute(copy.deepcopy(cand))
                except Exception:  # noqa: BLE001 - a candidate that breaks the harness is just not kept
                    continue
                v = out.get("violation")
                if v and v["rule"] == rule:
                    best = cand
                    progress = True
                    break
            if progress:
                break
    return best, used
