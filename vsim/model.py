"""Reference model of operators, containers and pools (DESIGN 2.3 / 2.4).

Independent restatement of the documented behaviour in exact arithmetic.
Shares no code with eudoxia.  Where the documentation leaves a choice open the
model either raises Discard (float ambiguity band) or takes the observed
outcome after checking it is one of the acceptable ones (score ties, the memory
reading of a forced single tick).
"""
from decimal import Decimal, getcontext
from fractions import Fraction as F
from math import floor

from .common import Discard, Violation

getcontext().prec = 60

P, A, R, SU, C, FL = "pending", "assigned", "running", "suspending", "completed", "failed"
BAND = F(1, 10 ** 9)
LAWS = ("const", "log", "sqrt", "linear3", "linear7", "squared", "exp")
FREE = "free"  # memory reading of a forced tick: anything in [0, max peak]


class Reject(Exception):
    """The model says this decision is inadmissible."""

    def __init__(self, kind, pool=None, info=None):
        super().__init__(kind)
        self.kind = kind
        self.pool = pool
        self.info = info


def frac(x):
    """Exact rational of a decimal string / int / float (floats exactly)."""
    if isinstance(x, F):
        return x
    if isinstance(x, str):
        return F(Decimal(x))
    if isinstance(x, float):
        return F(x)
    return F(x)


def _dec(fr):
    return Decimal(fr.numerator) / Decimal(fr.denominator)


ULPS = F(1, 2 ** 46)   # 64 ulps of a double, relative


def near(x, y, scale=None):
    """Ambiguity band of DESIGN 3.  Without an explicit scale: 1e-9 absolute, widened to 64 ulps for large
    magnitudes (tick numbers up to 1e9+), never a fixed fraction of the value."""
    if scale is None:
        return abs(x - y) <= max(BAND, ULPS * abs(y))
    return abs(x - y) <= BAND * scale


def cpu_time(law, b, c):
    """Documented scaling laws; b seconds baseline, c cpus (exact where rational)."""
    if law == "const":
        return b
    if law == "linear3":
        return b / (c if c < 3 else 3)
    if law == "linear7":
        return b / (c if c < 7 else 7)
    if law == "squared":
        return b / (c * c)
    if law == "exp":
        if c < 4:
            if c.denominator == 1:
                return b / (2 ** int(c))
            return b / F(Decimal(2) ** _dec(c))
        return b / 16
    if law == "log":
        if c == 1:
            return b
        return b / F(_dec(c).ln() + 1)
    if law == "sqrt":
        r = _dec(c).sqrt()
        if F(r) * F(r) == c:
            return b / F(r)
        return b / F(r)
    raise ValueError(law)


class Arith:
    """Float policy (DESIGN 3).  exact=True: dyadic scenario, every float
    operation in eudoxia is exact, comparisons are strict."""

    def __init__(self, exact):
        self.exact = exact
        self.banded = 0
        self.strict = 0
        # SYS lock-step: the executor has already accepted the batch when the model sees it; an exact fit
        # (a scheduler handing out precisely what is free) is inside the band, where either outcome is allowed
        self.admission_follows_impl = False

    def fl(self, x):
        if x == 0:
            self.strict += 1
            return 0          # 0 / anything is exactly 0 in floats as well
        n = round(x)
        if not self.exact and near(x, n):
            raise Discard("floor in band")
        self.strict += 1
        return floor(x)

    def gt(self, a, b, what="compare"):
        if not self.exact and near(a, b, max(1, abs(b))):
            if what == "batch cpu" and a.denominator == 1 and b.denominator == 1:
                self.strict += 1
                return a > b      # integer CPU counts are exact in floats too
            if self.admission_follows_impl and what in ("batch cpu", "batch ram"):
                self.banded += 1
                return False
            raise Discard(what + " in band")
        self.strict += 1
        return a > b


class MOp:
    def __init__(self, key, segs, parents):
        self.key = key          # (pipeline index, op index)
        self.segs = segs        # [(cpu seconds F, law, mem F|None, read F)]
        self.parents = parents  # [MOp]
        self.state = P

    def peak(self):
        return max((m if m is not None else r) for (_, _, m, r) in self.segs)


def op_plan(op, cpus, tps, ar):
    """Per-tick memory demand of one operator on `cpus` CPUs."""
    plan = []
    for (b, law, mem, read) in op.segs:
        io = ar.fl(read / 20 * tps)
        cpu = ar.fl(cpu_time(law, b, cpus) * tps)
        for i in range(io):
            plan.append(mem if mem is not None else F(i + 1) * 20 / tps)
        for _ in range(cpu):
            plan.append(mem if mem is not None else read)
    if not plan:
        plan = [FREE]  # "an operator occupies at least one tick"
    return plan


class MCont:
    def __init__(self, label, ops, cpu, ram, pool, prio=None):
        self.label = label
        self.ops = ops
        self.cpu = cpu
        self.ram = ram
        self.pool = pool
        self.prio = prio
        self.idx = 0
        self.pos = 0
        self.plan = None
        self.mem = F(0)
        self.frozen = False
        self.done = False
        self.error = None
        self.can_suspend = False
        self.sus_left = None
        self.sus_total = None
        self.ticks = 0
        self.finished_now = False
        self.last_demand = F(0)


class MPool:
    def __init__(self, pid, cpu, ram, tps, over, multi, ar):
        self.pid = pid
        self.cap_cpu = cpu
        self.cap_ram = ram
        self.av_cpu = cpu
        self.av_ram = ram
        self.tps = tps
        self.over = over
        self.multi = multi
        self.ar = ar
        self.active = []
        self.suspending = []
        self.suspended = []
        self.probes = {}

    def probe(self, k, n=1):
        self.probes[k] = self.probes.get(k, 0) + n

    # -- admissibility (no mutation) ------------------------------------
    def check_suspends(self, sus):
        for c in sus:
            if c is None or c not in self.active or not c.can_suspend:
                raise Reject("suspend", self.pid)
        if len(set(id(c) for c in sus)) != len(sus):
            raise Reject("suspend", self.pid, "twice")

    def check_batch(self, asg):
        if not asg:
            return
        tc = sum(c.cpu for c in asg)
        if self.ar.gt(tc, self.av_cpu, "batch cpu"):
            raise Reject("oversell", self.pid, "cpu")
        if not self.over:
            tr = sum(c.ram for c in asg)
            if self.ar.gt(tr, self.av_ram, "batch ram"):
                raise Reject("oversell", self.pid, "ram")
        for c in asg:
            if not self.multi and len(c.ops) != 1:
                raise Reject("opcount", self.pid)

    # -- one executor tick ------------------------------------------------
    def step(self, sus, asg, obs):
        ar = self.ar
        self.check_suspends(sus)
        for c in sus:
            x = c.ram / 20 * self.tps
            if ar.exact or x == 0 or not near(x, round(x)):
                d = max(1, ar.fl(x))
            else:
                # inside the band both neighbouring durations are allowed; follow the implementation
                seen = obs.suspend_ticks(c)
                cand = {max(1, round(x) - 1), max(1, round(x))}
                if seen is None:
                    raise Discard("write-out duration in band")
                if seen not in cand:
                    raise Violation("C10.duration", {"container": c.label, "ram": float(c.ram), "write_out_ticks": seen,
                                                     "allowed": sorted(cand)})
                d = seen
                ar.banded += 1
            c.sus_left = d
            c.sus_total = d
            for op in c.ops[c.idx:]:
                op.state = SU
            c.can_suspend = False
            self.active.remove(c)
            self.suspending.append(c)
            self.probe("suspend_accept")
            if d == 1:
                self.probe("suspend_1tick")
        self.check_batch(asg)
        for c in asg:
            self.av_cpu -= c.cpu
            self.av_ram -= c.ram
            self.active.append(c)
        for c in list(self.suspending):
            c.sus_left -= 1
            if c.sus_left == 0:
                for op in c.ops[c.idx:]:
                    op.state = P
                self.av_cpu += c.cpu
                self.av_ram += c.ram
                self.suspending.remove(c)
                self.suspended.append(c)
                self.probe("suspend_end")
        for c in self.active:
            self._tick(c, obs)
        # individual limits first
        for c in self.active:
            if c.frozen and not c.done:
                self._kill(c)
                self.probe("container_oom")
        self._pool_kill(obs)
        res = []
        for c in list(self.active):
            if c.done:
                self.av_cpu += c.cpu
                self.av_ram += c.ram
                res.append(c)
                self.active.remove(c)
        if len(res) >= 2 and any(c.error for c in res) and any(not c.error for c in res):
            self.probe("kill_and_completion_same_tick")
        return res

    def _tick(self, c, obs):
        c.finished_now = False
        if c.done or c.frozen:
            return
        c.ticks += 1
        if c.plan is None:
            op = c.ops[c.idx]
            if op.state != A:
                raise Reject("state", self.pid, op.key)
            for q in op.parents:
                if q.state != C:
                    raise Reject("dep", self.pid, op.key)
            op.state = R
            c.plan = op_plan(op, c.cpu, self.tps, self.ar)
            c.pos = 0
        m = c.plan[c.pos]
        if m is FREE:
            op = c.ops[c.idx]
            pk = op.peak()
            if self.ar.gt(pk, c.ram):
                # memory of the forced tick may be anything in [0, peak]: whether that exceeds the allocation is
                # not determined by the documentation - follow the implementation's outcome
                killed = obs.was_killed(c, self)
                if killed is None:
                    raise Discard("forced tick of an operator whose peak exceeds the allocation")
                self.ar.banded += 1
                self.probe("zero_tick_operator")
                if killed:
                    c.mem = pk
                    c.last_demand = pk
                    c.frozen = True
                    return
                seen = obs.forced_mem(c)
                if seen is not None and seen > c.ram * (1 + BAND):
                    raise Violation("C04.container_over", {"container": c.label, "use": float(seen), "alloc": float(c.ram)})
                m = seen if seen is not None else F(0)
                c.mem = m
                c.last_demand = m
                c.can_suspend = False
                c.pos += 1
                self._advance(c)
                return
            seen = obs.forced_mem(c)
            if seen is None:
                if obs.was_killed(c, self):
                    # killed at pool level in its forced tick and the reading is gone: any value in [0, peak] is allowed,
                    # so the victim order cannot be judged
                    raise Discard("forced-tick memory of a killed container not observable")
                seen = pk
            if seen < 0 or seen > pk + BAND * max(1, pk):
                raise Violation("C05.mem.forced_tick", {"container": c.label, "seen": float(seen), "peak": float(pk)})
            m = seen
            self.probe("zero_tick_operator")
        c.mem = m
        c.last_demand = m
        if self.ar.gt(m, c.ram, "container limit"):
            c.frozen = True
            return
        c.can_suspend = False
        c.pos += 1
        self._advance(c)

    def _advance(self, c):
        if c.pos == len(c.plan):
            c.ops[c.idx].state = C
            c.idx += 1
            c.plan = None
            if c.idx == len(c.ops):
                c.done = True
                c.finished_now = True
                c.mem = F(0)
            else:
                c.can_suspend = True

    def _kill(self, c):
        for op in c.ops[c.idx:]:
            op.state = FL
        c.done = True
        c.error = "OOM"
        c.mem = F(0)
        c.can_suspend = False

    def _pool_kill(self, obs):
        """Pool level: observed victim set K is validated against the rule
        (descending use^2/alloc, stop as soon as it fits), then adopted."""
        ar = self.ar
        alive = [c for c in self.active if not c.done]
        cand = [c for c in alive if c.mem > 0]
        total = sum(c.mem for c in alive)
        total_hi = total + sum(c.last_demand for c in self.active if c.finished_now)
        seen = [c for c in obs.pool_victims(self) if c in self.active and not c.error]
        K = [c for c in seen if c in alive]
        extra = [c for c in seen if c not in alive]
        if extra:
            raise Violation("C11.exempt", {"pool": self.pid, "victims": [c.label for c in extra],
                                           "why": "finished this tick / not running"})
        if not ar.gt(total, self.cap_ram, "pool total"):
            # fits (counting finishing containers as already gone)
            if K:
                if total_hi > self.cap_ram and not near(total_hi, self.cap_ram):
                    # documentation does not say whether a finishing container's
                    # last tick counts; accept a kill set that is valid if it does
                    self._validate_K(K, cand, total_hi, alt=True)
                    self.probe("pool_kill_counting_finisher")
                else:
                    raise Violation("C04.kill_unjustified", {
                        "pool": self.pid, "victims": [c.label for c in K],
                        "total": float(total), "capacity": float(self.cap_ram)})
            for c in K:
                self._kill(c)
            return
        self.probe("pool_crossing")
        if not K:
            raise Violation("C04.pool_over", {"pool": self.pid, "total": float(total),
                                              "capacity": float(self.cap_ram), "why": "no victim taken"})
        self._validate_K(K, cand, total)
        for c in K:
            self._kill(c)
        self.probe("pool_kill_victims", len(K))
        if len(K) >= 2:
            self.probe("pool_kill_multi")

    def _validate_K(self, K, cand, total, alt=False):
        ar = self.ar
        for c in K:
            if c not in cand:
                raise Violation("C11.exempt", {"pool": self.pid, "victim": c.label, "use": float(c.mem)})
        score = {id(c): c.mem * c.mem / c.ram for c in cand}
        rest = total - sum(c.mem for c in K)
        if ar.gt(rest, self.cap_ram, "kill sufficient") and not (alt and all(c in K for c in cand)):
            raise Violation("C11.sufficient", {"pool": self.pid, "left": float(rest), "capacity": float(self.cap_ram)})
        # the last container taken is (one of) the lowest scored; before it was
        # taken usage must still have been over capacity.  With tied scores any
        # of the tied ones may have been last.
        smin = min(score[id(c)] for c in K)
        lasts = [c for c in K if near(score[id(c)], smin, max(abs(smin), F(1, 10 ** 6)))]
        if not any(ar.gt(rest + c.mem, self.cap_ram, "kill minimal") for c in lasts):
            low = lasts[0]
            raise Violation("C11.minimal", {"pool": self.pid, "victims": [c.label for c in K],
                                            "unneeded": low.label, "left_without": float(rest + low.mem),
                                            "capacity": float(self.cap_ram)})
        tie = False
        for s in cand:
            if s in K:
                continue
            for k in K:
                a, b = score[id(s)], score[id(k)]
                if near(a, b, max(abs(a), abs(b), F(1, 10 ** 6))):
                    tie = True
                    continue
                if a > b:
                    raise Violation("C11.order", {"pool": self.pid, "survivor": s.label, "victim": k.label,
                                                  "survivor_score": float(a), "victim_score": float(b)})
        if tie:
            self.probe("score_tie")


class NoObs:
    """Used when the model runs without an implementation next to it."""

    def forced_mem(self, c):
        return None

    def suspend_ticks(self, c):
        return None

    def was_killed(self, c, pool):
        return None

    def pool_victims(self, pool):
        # deterministic default: descending score, creation order on ties
        alive = [c for c in pool.active if not c.done]
        total = sum(c.mem for c in alive)
        if total <= pool.cap_ram:
            return []
        cand = sorted([c for c in alive if c.mem > 0], key=lambda c: -(c.mem * c.mem / c.ram))
        out = []
        for c in cand:
            if total <= pool.cap_ram:
                break
            out.append(c)
            total -= c.mem
        return out


class MExec:
    def __init__(self, npools, cpus, ram, tps, over, multi, exact):
        self.ar = Arith(exact)
        self.tps = tps
        self.pools = [MPool(i, F(cpus), frac(ram), tps, over, multi, self.ar) for i in range(npools)]

    def step(self, sus, asg, obs):
        """sus: [(pool_id, MCont|None)], asg: [MCont] (c.pool = requested pool id).
        Returns ended containers in result order."""
        n = len(self.pools)
        for pid, _ in sus:
            if not (isinstance(pid, int) and 0 <= pid < n):
                raise Reject("pool", pid, "suspend")
        for c in asg:
            if not (isinstance(c.pool, int) and 0 <= c.pool < n):
                raise Reject("pool", c.pool, "assign")
        res = []
        for p in self.pools:
            res.extend(p.step([c for pid, c in sus if pid == p.pid], [c for c in asg if c.pool == p.pid], obs))
        return res

    def probes(self):
        out = {}
        for p in self.pools:
            for k, v in p.probes.items():
                out[k] = out.get(k, 0) + v
        return out
