#!/bin/sh
# usage: tools/intake_round.sh <round letter> [ids...]  - takes in every finished sub-agent deliverable of a round
cd "$(dirname "$0")/.." || exit 2
r=$1; shift
ids=${*:-C01 C02 C03 C04 C05 C06 C07 C08 C09 C10 C11 C12 C13 C14 C15 C16 C17 C18 C19 C20}
for id in $ids; do
  out=/tmp/wt/out-$id-$r
  [ -f $out/meta.json ] && [ -f $out/patch.diff ] && [ -f $out/demo.py ] || { echo "$id-$r: not delivered yet"; continue; }
  [ -d seeded/$id-$r ] && { echo "$id-$r: already taken in"; continue; }
  res=$(/venv/bin/python tools/intake.py $out $id-$r 2>&1 | tail -1)
  case "$res" in
    CONFIRMED*) line=$(/venv/bin/python tools/mutation.py --kind seeded --only $id-$r 2>&1 | head -1); echo "$line";;
    *) echo "$id-$r: $res";;
  esac
  git -C /repo worktree remove --force /tmp/wt/$id-$r 2>/dev/null
done
