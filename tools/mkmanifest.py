#!/usr/bin/env python3
"""Regenerates MANIFEST.json from the table below (so it stays valid and in
step with what is built).  Run: /venv/bin/python tools/mkmanifest.py"""
import json
import os

HERE = os.path.dirname(os.path.dirname(os.path.abspath(__file__)))

TECH = "deterministic simulation with fault injection (seeded schedule/fault search against a reference model)"

CHECKS = {
    "C03": dict(
        text="Seeded simulation search: thousands of command streams (assignments of any size, legal and illegal "
             "suspensions, oversell batches) on the real Executor, compared after every tick with an exact-arithmetic "
             "reference model plus model-free conservation identities. Held on everything explored; not a proof.",
        note="Trusts the reference model (vsim/model.py) as a faithful reading of README/docstrings; floats compared "
             "with 1e-9 relative tolerance; runs that hit a float ambiguity band are discarded, not judged.",
        ref="DESIGN 4/C03"),
    "C04": dict(
        text="Seeded simulation search over memory profiles, allocations, overcommit, kills and suspensions; per-tick "
             "limits, truthful reporting and kill justification against the reference model.",
        note="Same trusted base as C03. A finishing container's last-tick demand may or may not count (both accepted).",
        ref="DESIGN 4/C04"),
    "C05": dict(
        text="Model-based lock-step simulation of containers (1..5 operators x 1..3 segments, all seven scaling laws, "
             "tick rates 1..100000, zero-tick segments, allocations around the peak) under interleaving with other "
             "containers; per-tick memory, states, completion/OOM tick compared with the exact model.",
        note="Float policy of DESIGN 3: strict in dyadic scenarios, discard inside the 1e-9 band otherwise. For a lone "
             "container the schedule dimension is trivial (differential testing of a tick-stepped state machine).",
        ref="DESIGN 4/C05"),
    "C09": dict(
        text="Seeded simulation search over 1..4 pools with simultaneous completions, kills and suspensions and "
             "out-of-range pool numbers; containers tracked by identity from acceptance to their single outcome.",
        note="Same trusted base as C03.", ref="DESIGN 4/C09"),
    "C10": dict(
        text="Seeded simulation search: suspension requested at legal boundaries and at every kind of illegal moment "
             "(mid-operator, suspending, suspended, unknown, other pool), write-outs from 1 tick upward, resumed "
             "work re-assigned and followed to completion under the model.",
        note="Same trusted base as C03. A duplicate request in one batch must be rejected but may leave the first applied.",
        ref="DESIGN 4/C10"),
    "C11": dict(
        text="Seeded simulation search with overcommit: 2..10 concurrent containers crossing pool capacity, engineered "
             "score ties and several victims per tick; the observed victim set is validated (ordered, minimal, "
             "sufficient, exempt) against exact scores.",
        note="Same trusted base as C03; ties within 1e-9 relative accept any choice.", ref="DESIGN 4/C11"),
}

NOT_YET = {
    "C01": "not built yet in this round (planned: SYS + EX drivers, DAG sweep)",
    "C02": "not built yet in this round", "C06": "not built yet in this round",
    "C07": "not built yet in this round", "C08": "not built yet in this round",
    "C12": "not built yet in this round", "C13": "not built yet in this round",
    "C14": "not built yet in this round", "C15": "not built yet in this round",
    "C16": "not built yet in this round", "C17": "not built yet in this round",
    "C18": "not built yet in this round", "C19": "not built yet in this round",
    "C20": "not built yet in this round",
}

CHECKS.update({
    "C01": dict(
        text="Seeded simulation search: full simulations under every shipped scheduler plus the starter template, and "
             "executor-level chaos streams with dependency-violating decisions (pending parent, child listed before "
             "parent, child behind an unrelated operator); every transition to RUNNING is checked against the parents' "
             "state at that event. The DAG-iteration clause is a pure function: all 35 355 insertion-ordered DAGs on 1..6 nodes "
             "are enumerated (reported separately as exhaustive).",
        note="Trusts the transition log seam (wrapper around PipelineRuntimeStatus.transition, cross-checked against "
             "operator_states snapshots).", ref="DESIGN 4/C01"),
    "C02": dict(
        text="Seeded request histories on all DAGs of 1..3 operators (most requests illegal), a complete sweep of every "
             "reachable (state vector, operator, target) triple, plus simulated histories under all schedulers and "
             "chaos streams with Assignment-construction faults.",
        note="The sweep is complete over the model's reachable set for <=3 operators; simulated histories are sampled.",
        ref="DESIGN 4/C02"),
    "C06": dict(
        text="Seeded full simulations (scenario workloads and the real WorkloadGenerator) under all shipped schedulers; "
             "afterwards every returned statistic is compared with a recount from recorded arrivals, decisions, results "
             "and the transition log; includes runs with nothing arriving/finishing and empty classes.",
        note="p99 of container durations accepted over all ended or over successful containers; throughput over the "
             "configured duration or the simulated ticks.", ref="DESIGN 4/C06"),
    "C08": dict(
        text="Seeded swarm over the valid configuration domain x well-formed workloads for naive, priority, "
             "priority-pool, overbook and the template written by the real init_command; any exception or hang is a "
             "violation. Known finding D3 (priority-pool in single-operator mode) is matched narrowly.",
        note="Validity domain as written in DESIGN 4/C08; a per-run 60 s alarm stands in for 'hang'.", ref="DESIGN 4/C08"),
    "C12": dict(
        text="Seeded full simulations of priority / priority-pool with per-round oracles on order, FIFO, work "
             "conservation and pre-emption, evaluated on the scheduler's real inputs/outputs and a snapshot of pools.",
        note="Work conservation is stated over PENDING-ready operators (FAILED retries may legitimately wait).",
        ref="DESIGN 4/C12"),
    "C16": dict(text="Seeded full simulations of priority-pool on two pools with OOM/retry histories; per-round pool "
                     "routing and retry-set oracles.", note="Expectations are registered from the round's results before "
                     "its assignments are examined.", ref="DESIGN 4/C16"),
    "C17": dict(text="Seeded full simulations of naive (and the template, same documented policy) with per-round oracles.",
                note="Free CPU/RAM taken from a snapshot before the round.", ref="DESIGN 4/C17"),
    "C18": dict(text="Seeded full simulations of overbook with overcommit and repeated pool-level kills; per-round "
                     "shape, work-conservation and three-strikes oracles.", note="-", ref="DESIGN 4/C18"),
})
for _k in list(NOT_YET):
    if _k in CHECKS:
        del NOT_YET[_k]

CHECKS.update({
    "C13": dict(
        text="Seeded traces replayed through the real reader and WorkloadTrace with the tick counter as clock (jumped over "
             "idle gaps), grid sweeps of consecutive ticks at 12 tick rates, and gentrace round trips of the real generator; "
             "exact-decimal oracle for the delivery tick. Known findings D9a/D9b (on-grid arrivals one tick late) are matched "
             "on their exact mechanism; any other deviation is a violation.",
        note="Inside the 1e-9 band above a tick boundary both neighbouring ticks are accepted unless the value is exactly "
             "on the grid as a decimal or was written by gentrace.", ref="DESIGN 4/C13"),
    "C14": dict(
        text="Seeded write->read and read->write round trips through the real CSV writer/reader/trace generator and "
             "storage-fault injection (one format violation per file, at reader level and through WorkloadTrace).",
        note="Round-trip clauses are pure functions of the input; claimed as exploration with that caveat.", ref="DESIGN 4/C14"),
    "C15": dict(
        text="The real generator stepped over seeds x parameter sets; strict structural oracle per emitted pipeline, "
             "statistical oracles (class frequencies, mean operator count, mean gap, cpu_io_ratio shift) with per-check "
             "false-alarm probability < 1e-12.",
        note="Statistical clauses only evaluated above stated sample sizes.", ref="DESIGN 4/C15"),
    "C20": dict(
        text="Seeded traces through the real snap and jitter commands on temporary files (bounds, idempotence, "
             "reproducibility, stability, untouched cells, replay of snapped traces) and the real sensitivity-sample "
             "fan-out with an in-process worker pool.",
        note="snap/jitter arithmetic is a pure function; on-grid = within 1e-9 relative of a tick boundary.", ref="DESIGN 4/C20"),
})
for _k in list(NOT_YET):
    if _k in CHECKS:
        del NOT_YET[_k]

CHECKS.update({
    "C07": dict(
        text="Paired simulations of the same scenario under perturbed identifier streams (uuid seam), shifted container "
             "numbers, preceding simulations in the process and fresh interpreters under other PYTHONHASHSEED values; canonical "
             "logs and statistics must be identical; generator stream compared across scheduler/executor settings and seeds.",
        note="Canonical identifiers are keyed on arrival order, operator position and first appearance of container ids, never on "
             "object addresses. 'Different seeds differ' is asserted only for workloads with >= 200 pipelines and two classes "
             "of probability >= 0.1.", ref="DESIGN 4/C07"),
    "C19": dict(
        text="The real rest scheduler over a simulated transport (real JSON both ways), driven by a port of the Go reference "
             "scheduler and by a seeded random admissible policy incl. suspensions, with seeded network latencies on the "
             "wall-clock seam; per-request oracles plus a transparency twin run through an in-process scheduler.",
        note="HTTP and the external scheduler are stubs; go/ is not executed (no toolchain).", ref="DESIGN 4/C19"),
})
for _k in list(NOT_YET):
    if _k in CHECKS:
        del NOT_YET[_k]

_LOCK = (" The same exact model also runs in lock-step inside run_simulator under the shipped schedulers (sysmodel family)"
         " and, where listed, under a seeded chaos custom scheduler registered through the public decorators.")
for _k in ("C03", "C04", "C05", "C09", "C10"):
    CHECKS[_k]["text"] += _LOCK
CHECKS["C01"]["text"] += " A chaos custom scheduler inside run_simulator adds arbitrary admissible packings."
CHECKS["C02"]["text"] += " A chaos custom scheduler inside run_simulator adds arbitrary admissible packings."
CHECKS["C06"]["text"] += " Includes the uncontended clause (one chain, ample resources, all schedulers) and runs under a chaos custom scheduler."
_ADD = {
    "C01": " Request histories on multi-parent DAGs (sinks behind up to 40 parents) with repeated start requests and check_transition polls; a parent that reads COMPLETED while its modelled work is outstanding is a violation of its own.",
    "C02": " Suspension-heavy command streams; bookkeeping calls (record_arrival / record_finish) inside request histories; operators left RUNNING or SUSPENDING without a container.",
    "C03": " Storm runs (1 400+ finished suspensions per pool), runs that straddle tick 100 000, zero and negative sizes among the injected faults.",
    "C04": " RAM-overselling batches (with and without force_run) are injected by this check as well.",
    "C05": " The same clauses with neighbours in the pool (crowd family); durations within 3e-9 .. 1e-4 of a whole tick; arbitrary tick rates.",
    "C06": " Runs fed by the real trace reader, runs of 70 000 - 260 000 pipelines, small pools with fixed-memory operators (a failure despite enough memory is a violation).",
    "C07": " Segment objects shared with an earlier simulation at another tick rate, identifier streams with shared prefixes/suffixes, adjusted_latency() among the compared statistics, seeds 0 / 2^32 / 2^63 against the default.",
    "C08": " Runs fed by the real trace reader (sorted, appended, shuffled rows), parameters handed over as TOML files, float tick rates.",
    "C09": " Storm runs; resumes that name the container they continue; two live containers answering to one id.",
    "C10": " Storm runs (thousands of write-outs per pool).",
    "C11": " Hair family: pools over capacity by 2^-30 .. 2^-40 GB in exact dyadic arithmetic.",
    "C13": " Traces of 1 - 25 MiB, the command-line round trip (run vs gentrace + run -w through files), every replay of `tools sensitivity`, columns in any order.",
    "C14": " Pipelines of 10 - 14 operators, parents declared in any order, repeated first rows, columns in any order.",
    "C15": " A second generator built mid-run, probability triples with per-mille classes judged by exact tails.",
    "C16": " 1 200 - 3 000 pipelines past long-lived victim pipelines; recurring job names in any class.",
    "C17": " 1 200 - 3 000 pipelines past long-lived victim pipelines; 'free' is capacity minus what live containers hold; FIFO by pipeline object.",
    "C18": " 1 200 - 3 000 pipelines past long-lived victim pipelines; container count judged at the decision; history-dependent violations replayed as sequences of simulations.",
    "C19": " Recurring job names (identity = id + arrival tick), dependency-closed containers, own priorities and force_run, 560 - 1 500 suspensions in one pool, tick labels against the simulation's own tick.",
    "C20": " Tools also run through main(); exponent notation, recurring job names, column orders, 52 000 - 266 000 pipelines through jitter.",
}
for _k, _v in _ADD.items():
    CHECKS[_k]["text"] += _v
for _k in CHECKS:
    CHECKS[_k]["text"] += " Families and run counts as built: DESIGN 0.7; what each extension was made for: DESIGN 0.5 and SENSITIVITY.md."
CHECKS["C12"]["text"] += " A dedicated pre-emption workload family produces thousands of suspensions per run, incl. one-tick write-outs and several finishing in one tick."
CHECKS["C14"]["text"] += " A behavioural twin (same workload simulated directly and through the written file) ties the round trip to simulated behaviour."


def main():
    checks = []
    for pid in sorted(CHECKS):
        c = CHECKS[pid]
        checks.append({
            "property_id": pid,
            "quick_cmd": "./check %s quick" % pid,
            "thorough_cmd": "./check %s thorough" % pid,
            "evidence_file": "/verif/evidence/%s.json" % pid,
            "replay_cmd_template": "./check replay {path}",
            "engine": "vsim",
            "level_claimed": {"category": c.get("category", "exploration"), "text": c["text"], "design_ref": c["ref"]},
            "level_note": c["note"],
            "technique": c.get("technique", TECH),
        })
    man = {
        "version": 1,
        "setup_cmd": "./setup.sh",
        "hooks": {
            "guard": "EUDOXIA_VERIF",
            "enable": "no source hooks: every seam is an existing public interface wrapped from the harness process "
                      "(run_simulator(workload=), register_scheduler, Executor subclass, module attributes)",
            "baseline_off_cmd": "cd /repo && /venv/bin/python -m pytest -ra -q -p no:cacheprovider --timeout=900 "
                                "--continue-on-collection-errors",
            "source_commits": [],
            "add_only": True,
        },
        "engines": [{"name": "vsim", "path": "/verif/vsim", "serves_properties": sorted(CHECKS),
                     "kind_free_text": "hand-written deterministic simulator harness: seeded scenario generators, "
                                       "EX/SYS/CMP drivers around the real eudoxia code, exact-arithmetic reference "
                                       "model, minimiser, replay files"}],
        "checks": checks,
        "not_applicable": [{"property_id": k, "reason": v} for k, v in sorted(NOT_YET.items()) if k not in CHECKS],
        "notes": "See DESIGN.md. Fixes to /repo are separate 'fix:' commits listed in known_findings.json.",
    }
    with open(os.path.join(HERE, "MANIFEST.json"), "w") as f:
        json.dump(man, f, indent=1)
        f.write("\n")


if __name__ == "__main__":
    main()
