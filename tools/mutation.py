#!/usr/bin/env python3
"""Sensitivity self-test.  For every mutant (a patch under mutants/ or seeded/*/patch.diff, or the reversal of a
'fix:' commit) make a scratch worktree of /repo outside /repo and /verif, apply it, optionally run the baseline
suite on it, run the named property checks with VERIF_REPO pointing at it, record which check caught it, and
remove the worktree again.

  tools/mutation.py [--suite] [--scale X] [--only name-substring] [--props C03,C05] [--kind mutants|seeded|reverts]
Results go to mutants/results.json (merged by mutant name)."""
import argparse
import json
import os
import re
import shutil
import subprocess
import sys
import time

HERE = os.path.dirname(os.path.dirname(os.path.abspath(__file__)))
REPO = "/repo"
SCRATCH = "/tmp/vmut"


def sh(cmd, **kw):
    return subprocess.run(cmd, shell=isinstance(cmd, str), capture_output=True, text=True, **kw)


def mutants(kind):
    out = []
    if kind in (None, "mutants"):
        d = os.path.join(HERE, "mutants")
        for f in sorted(os.listdir(d)):
            if f.endswith(".patch"):
                m = re.match(r"(C\d\d(?:-C\d\d)*)[-_]", f)
                props = m.group(1).split("-") if m else []
                out.append({"name": f[:-6], "patch": os.path.join(d, f), "props": props, "kind": "mutant"})
    if kind in (None, "seeded"):
        d = os.path.join(HERE, "seeded")
        if os.path.isdir(d):
            for s in sorted(os.listdir(d)):
                pf = os.path.join(d, s, "patch.diff")
                if os.path.exists(pf):
                    meta = {}
                    mf = os.path.join(d, s, "meta.json")
                    if os.path.exists(mf):
                        meta = json.load(open(mf))
                    props = meta.get("checks") or [meta.get("property", s[:3])]
                    out.append({"name": "seeded-" + s, "patch": pf, "props": props, "kind": "seeded"})
    if kind in (None, "reverts"):
        kf = json.load(open(os.path.join(HERE, "known_findings.json")))
        seen = set()
        for e in kf["findings"]:
            if e.get("status") == "fixed" and e.get("commit"):
                key = (e["commit"], e["property"])
                if key in seen:
                    continue
                seen.add(key)
                out.append({"name": "revert-%s-%s" % (e["id"], e["commit"]), "revert": e["commit"], "props": [e["property"]],
                            "kind": "revert", "rule": e.get("rule"), "revert_with": e.get("revert_with", [])})
    return out


def main():
    ap = argparse.ArgumentParser()
    ap.add_argument("--suite", action="store_true")
    ap.add_argument("--scale", default="1")
    ap.add_argument("--only", default=None)
    ap.add_argument("--props", default=None)
    ap.add_argument("--kind", default=None)
    ap.add_argument("--tier", default="quick")
    a = ap.parse_args()
    res_path = os.path.join(HERE, "mutants", "results.json")
    results = json.load(open(res_path)) if os.path.exists(res_path) else {}
    os.makedirs(SCRATCH, exist_ok=True)
    for m in mutants(a.kind):
        if a.only and a.only not in m["name"]:
            continue
        wt = os.path.join(SCRATCH, re.sub(r"[^A-Za-z0-9_.-]", "_", m["name"]))
        sh(["git", "-C", REPO, "worktree", "remove", "--force", wt])
        shutil.rmtree(wt, ignore_errors=True)
        r = sh(["git", "-C", REPO, "worktree", "add", "--detach", wt, "HEAD"])
        if r.returncode:
            print("worktree failed", m["name"], r.stderr[-300:])
            continue
        rec = {"kind": m["kind"], "props": m["props"], "checks": {}}
        try:
            if "patch" in m:
                r = sh(["git", "-C", wt, "apply", "--whitespace=nowarn", m["patch"]])
            else:
                for extra in m.get("revert_with", []):      # later commits that touched the same lines go first
                    sh(["git", "-C", wt, "revert", "--no-commit", extra])
                r = sh(["git", "-C", wt, "revert", "--no-commit", m["revert"]])
            if r.returncode:
                rec["error"] = "does not apply: " + (r.stderr or r.stdout)[-300:]
                print("%-46s DOES NOT APPLY" % m["name"])
                results[m["name"]] = rec
                continue
            if a.suite:
                t0 = time.time()
                r = sh("cd %s && /venv/bin/python -m pytest -q -p no:cacheprovider --timeout=900 -x 2>&1 | tail -3" % wt)
                rec["suite"] = "passed" if re.search(r"\b51 passed", r.stdout) else "FAILED: " + r.stdout[-200:]
                rec["suite_s"] = round(time.time() - t0, 1)
            props = a.props.split(",") if a.props else m["props"]
            for p in props:
                t0 = time.time()
                env = dict(os.environ, VERIF_REPO=wt, VERIF_SCALE=a.scale)
                r = sh([os.path.join(HERE, "check"), p, a.tier], env=env, cwd=HERE)
                rules = sorted(set(re.findall(r"rule=(\S+)", r.stdout)))
                rec["checks"][p] = {"exit": r.returncode, "rules": rules, "wall_s": round(time.time() - t0, 1),
                                    "harness": len(re.findall(r"HARNESS-ERROR", r.stdout))}
            caught = [p for p, c in rec["checks"].items() if c["exit"] == 1]
            rec["caught_by"] = caught
            print("%-46s suite=%-7s %s" % (m["name"], rec.get("suite", "-")[:7],
                                           " ".join("%s:%s%s" % (p, {0: "miss", 1: "CAUGHT", 2: "harness"}.get(c["exit"], c["exit"]),
                                                                 "[" + ",".join(c["rules"])[:70] + "]" if c["rules"] else "")
                                                    for p, c in rec["checks"].items())))
            results[m["name"]] = rec
        finally:
            sh(["git", "-C", REPO, "worktree", "remove", "--force", wt])
            shutil.rmtree(wt, ignore_errors=True)
        with open(res_path, "w") as f:
            json.dump(results, f, indent=1, sort_keys=True)
    # the checks were run against scratch trees: evidence must be regenerated against /repo before committing
    print("NOTE: evidence/*.json now describes runs against scratch trees; re-run the checks on /repo before committing evidence")


if __name__ == "__main__":
    main()
