#!/usr/bin/env python3
"""Take a sub-agent's deliverable (/tmp/wt/out-<ID>/{patch.diff,demo.py,meta.json}), confirm everything it claims in a
fresh scratch worktree (patch applies, suite passes, demo fails with the change and passes without), and if confirmed
store it as seeded/<name>/.   usage: tools/intake.py <out_dir> <name>"""
import json
import os
import re
import shutil
import subprocess
import sys

HERE = os.path.dirname(os.path.dirname(os.path.abspath(__file__)))


def sh(cmd, **kw):
    return subprocess.run(cmd, shell=isinstance(cmd, str), capture_output=True, text=True, **kw)


def main():
    src, name = sys.argv[1], sys.argv[2]
    wt = "/tmp/vintake/" + name
    sh(["git", "-C", "/repo", "worktree", "remove", "--force", wt])
    shutil.rmtree(wt, ignore_errors=True)
    os.makedirs("/tmp/vintake", exist_ok=True)
    r = sh(["git", "-C", "/repo", "worktree", "add", "--detach", wt, "HEAD"])
    assert r.returncode == 0, r.stderr
    ran = {}
    try:
        demo = os.path.join(src, "demo.py")
        r0 = sh("cd %s && timeout 600 /venv/bin/python %s" % (wt, demo))
        ran["demo_without_change_exit"] = r0.returncode
        r = sh(["git", "-C", wt, "apply", "--whitespace=nowarn", os.path.join(src, "patch.diff")])
        if r.returncode:
            print("PATCH DOES NOT APPLY", r.stderr[-300:])
            return 1
        r1 = sh("cd %s && timeout 600 /venv/bin/python %s" % (wt, demo))
        ran["demo_with_change_exit"] = r1.returncode
        ran["demo_with_change_tail"] = (r1.stdout + r1.stderr)[-400:]
        rs = sh("cd %s && timeout 1800 /venv/bin/python -m pytest -q -p no:cacheprovider --timeout=900 2>&1 | tail -3" % wt)
        ran["suite"] = rs.stdout.strip().splitlines()[-1] if rs.stdout.strip() else "?"
        ok = ran["demo_without_change_exit"] == 0 and ran["demo_with_change_exit"] == 1 and re.search(r"\b51 passed", rs.stdout)
        print(json.dumps(ran, indent=1))
        if not ok:
            print("NOT CONFIRMED")
            return 1
        dst = os.path.join(HERE, "seeded", name)
        os.makedirs(dst, exist_ok=True)
        shutil.copy(os.path.join(src, "patch.diff"), dst)
        shutil.copy(demo, dst)
        meta = json.load(open(os.path.join(src, "meta.json")))
        meta["confirmed"] = {"suite": ran["suite"], "demo_exit_with_change": 1, "demo_exit_without_change": 0,
                             "how": "tools/intake.py: fresh worktree of /repo HEAD, demo run before and after `git apply`, full suite run with the change"}
        meta["origin"] = "independent sub-agent given only the property text and its own worktree"
        json.dump(meta, open(os.path.join(dst, "meta.json"), "w"), indent=1)
        print("CONFIRMED ->", dst)
        return 0
    finally:
        sh(["git", "-C", "/repo", "worktree", "remove", "--force", wt])
        shutil.rmtree(wt, ignore_errors=True)


if __name__ == "__main__":
    sys.exit(main())
