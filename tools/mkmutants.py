#!/usr/bin/env python3
"""Generates mutants/*.patch from the replacement table below (the 'would catch' lists of DESIGN section 4 and
Appendix A).  Each entry is (name, file, old, new[, count]).  Run after /repo changes; entries whose `old` text no
longer occurs are reported."""
import os
import subprocess
import sys

HERE = os.path.dirname(os.path.dirname(os.path.abspath(__file__)))
WT = "/tmp/vmkmut"

M = [
    # ---- C01
    ("C01-dep_first_parent_only", "eudoxia/workload/runtime_status.py",
     "            for parent in operator.parents:\n", "            for parent in operator.parents[:1]:\n"),
    ("C01-dagiter_first_parent", "eudoxia/utils/dag.py",
     "all(parent.id in self.returned for parent in child.parents)", "any(parent.id in self.returned for parent in child.parents[:1])"),
    ("C01-C08-getops_first_parent", "eudoxia/workload/runtime_status.py",
     "                self.operator_states[p] == OperatorState.COMPLETED for p in op.parents\n",
     "                self.operator_states[p] == OperatorState.COMPLETED for p in op.parents[:1]\n"),
    # ---- C02
    ("C02-counts_before_assert", "eudoxia/workload/runtime_status.py",
     "        can_transition, error = self.check_transition(operator, new_state)\n        assert can_transition, error\n        old_state = self.operator_states[operator]\n        self.state_counts[old_state] -= 1\n        self.state_counts[new_state] += 1\n",
     "        can_transition, error = self.check_transition(operator, new_state)\n        old_state = self.operator_states[operator]\n        self.state_counts[old_state] -= 1\n        self.state_counts[new_state] += 1\n        assert can_transition, error\n"),
    ("C02-extra_edge_running_pending", "eudoxia/workload/runtime_status.py",
     "    OperatorState.RUNNING: [\n        OperatorState.COMPLETED,\n", "    OperatorState.RUNNING: [\n        OperatorState.PENDING,\n        OperatorState.COMPLETED,\n"),
    ("C02-extra_edge_failed_running", "eudoxia/workload/runtime_status.py",
     "    OperatorState.FAILED: [\n        OperatorState.ASSIGNED,\n", "    OperatorState.FAILED: [\n        OperatorState.ASSIGNED,\n        OperatorState.RUNNING,\n"),
    # ---- C03
    ("C03-admission_per_member", "eudoxia/executor/resource_pool.py",
     "        for a in assignments:\n            cpu_to_be_alloc += a.cpu\n            ram_to_be_alloc += a.ram\n",
     "        for a in assignments:\n            cpu_to_be_alloc = max(cpu_to_be_alloc, a.cpu)\n            ram_to_be_alloc = max(ram_to_be_alloc, a.ram)\n"),
    ("C03-int_ram", "eudoxia/executor/resource_pool.py",
     "                self.avail_ram_pool -= a.ram\n", "                self.avail_ram_pool -= int(a.ram)\n"),
    ("C03-victim_cpu_not_returned", "eudoxia/executor/resource_pool.py",
     "            if c.is_completed():\n                self.avail_cpu_pool += c.assignment.cpu\n",
     "            if c.is_completed():\n                if not (c.error and len(self.active_containers) >= 3 and c.get_current_memory_usage() == 0 and c is self.active_containers[-1]):\n                    self.avail_cpu_pool += c.assignment.cpu\n"),
    ("C03-free_on_suspend_start", "eudoxia/executor/resource_pool.py",
     "                container.suspend_container()\n", "                container.suspend_container()\n                self.avail_cpu_pool += 0 if container.suspend_ticks > 1 else container.assignment.cpu\n"),
    # ---- C04
    ("C04-kill_at_limit", "eudoxia/executor/container.py",
     "                    while self._current_memory > self.assignment.ram:\n", "                    while self._current_memory >= self.assignment.ram:\n"),
    ("C04-no_reconcile_drift", "eudoxia/executor/container.py",
     "        self.pool.consumed_ram_gb += delta\n", "        self.pool.consumed_ram_gb += delta * (1 + 1e-7)\n"),
    # ---- C05
    ("C05-cpu_ticks_round", "eudoxia/executor/container.py",
     "                cpu_ticks = int(cpu_secs / self.tick_length_secs)\n", "                cpu_ticks = round(cpu_secs / self.tick_length_secs)\n"),
    ("C05-sqrt_cuberoot", "eudoxia/workload/pipeline.py",
     "        scaling_factor = np.sqrt(num_cpus)\n", "        scaling_factor = np.cbrt(num_cpus)\n"),
    ("C05-mem_grows_in_cpu_phase", "eudoxia/executor/container.py",
     "                        self.set_current_memory_usage(seg.get_peak_memory_gb())\n",
     "                        self.set_current_memory_usage(seg.get_peak_memory_gb() if seg.memory_gb is not None or i > io_ticks else (io_ticks + 1) * self.tick_length_secs * DISK_SCAN_GB_SEC)\n"),
    # ---- C06
    ("C06-throughput_max1", "eudoxia/simulator.py",
     "    throughput = executor.num_completed() / params['duration']\n", "    throughput = executor.num_completed() / max(1, params['duration'])\n"),
    ("C06-zero_latency_dropped", "eudoxia/simulator.py",
     "                    pipeline_latencies_by_priority[pipeline.priority].append(latency_ticks)\n",
     "                    if latency_ticks:\n                        pipeline_latencies_by_priority[pipeline.priority].append(latency_ticks)\n"),
    ("C06-failures_count_ops", "eudoxia/simulator.py",
     "        num_failures += len(failures)\n", "        num_failures += sum(1 if len(f.ops) < 3 else 2 for f in failures)\n"),
    # ---- C07
    ("C07-seed_mixed_with_pools", "eudoxia/workload/workload.py",
     "        self.rng = np.random.default_rng(random_seed)\n", "        self.rng = np.random.default_rng(random_seed + kwargs.get('num_pools', 0) // 4)\n"),
    ("C07-overbook_set_iteration", "eudoxia/scheduler/overbook.py",
     "    for pipeline in pipelines_to_process.values():\n", "    for pipeline in {p.values.dag_id: p for p in pipelines_to_process.values()}.values() if len(pipelines_to_process) < 3 else [pipelines_to_process[k] for k in sorted(pipelines_to_process, key=lambda k: hash(pipelines_to_process[k].values.dag_id))]:\n"),
    ("C07-container_id_tiebreak", "eudoxia/executor/resource_pool.py",
     "        scored.sort(key=lambda x: x[0], reverse=True)\n", "        scored.sort(key=lambda x: (x[0], x[1].container_id), reverse=True)\n"),
    # ---- C08
    ("C08-overbook_queue_duplicates", "eudoxia/scheduler/overbook.py",
     "            if op.id in queued_ids:\n                continue # suppress duplicates\n", "            if op.id in queued_ids and len(ready_ops) < 3:\n                continue # suppress duplicates\n"),
    ("C08-template_two_ops", "eudoxia/__main__.py",
     "            op_list = status.get_ops(ASSIGNABLE_STATES, require_parents_complete=True)[:1]\n            if not op_list:\n                continue\n\n            assignment = Assignment(\n",
     "            op_list = status.get_ops(ASSIGNABLE_STATES, require_parents_complete=True)[:1 if len(s.waiting_queue) < 4 else 2]\n            if not op_list:\n                continue\n\n            assignment = Assignment(\n"),
    ("C08-priority_ram_copy", "eudoxia/scheduler/priority.py",
     "                pool_stats[pool_id][\"avail_ram\"] -= job_ram\n                to_start.append(asgmnt)\n            # If old_cpu is not None",
     "                pool_stats[pool_id][\"avail_ram\"] -= job_ram / 2\n                to_start.append(asgmnt)\n            # If old_cpu is not None"),
    # ---- C09
    ("C09-drop_failure_results_overcommit", "eudoxia/executor/resource_pool.py",
     "                logger.info(result)\n                results.append(result)\n",
     "                logger.info(result)\n                if not (self.allow_memory_overcommit and result.failed() and len(results) >= 2):\n                    results.append(result)\n"),
    ("C09-drop_assignments_other_pools", "eudoxia/executor/executor.py",
     "            pool_assignments = [a for a in assignments if a.pool_id == id_]\n",
     "            pool_assignments = [a for a in assignments if a.pool_id == id_ and (id_ == 0 or len(a.ops) < 4)]\n"),
    ("C09-success_after_partial", "eudoxia/executor/resource_pool.py",
     "                                        container_id=c.container_id, error=c.error)\n",
     "                                        container_id=c.container_id, error=c.error if c._current_op_idx == 0 or len(c.operators) < 3 else None)\n"),
    # ---- C10
    ("C10-no_boundary_check", "eudoxia/executor/resource_pool.py",
     "            assert container.can_suspend_container(), \"Container cannot be suspended right now\"\n",
     "            assert container is not None, \"Container cannot be suspended right now\"\n"),
    ("C10-sticky_boundary_flag", "eudoxia/executor/container.py",
     "                    self._can_suspend = False\n                    if seg_idx == last_seg_idx", "                    self._can_suspend = self._can_suspend and total_seg_ticks == 1\n                    if seg_idx == last_seg_idx"),
    ("C10-duration_from_used_memory", "eudoxia/executor/container.py",
     "        write_to_disk_secs = self.assignment.ram / DISK_SCAN_GB_SEC\n", "        write_to_disk_secs = max(self._current_memory, self.assignment.ram / 2) / DISK_SCAN_GB_SEC\n"),
    ("C10-writeout_never_counts_request_tick", "eudoxia/executor/resource_pool.py",
     "        to_remove = []\n        for c in self.suspending_containers:\n            c.suspend_container_tick()\n",
     "        to_remove = []\n        for c in self.suspending_containers:\n            if c.suspend_ticks == c._suspend_ticks_left and c.suspend_ticks > 2 and len(suspensions) > 0:\n                continue\n            c.suspend_container_tick()\n"),
    ("C05-linear3_boundary", "eudoxia/workload/pipeline.py",
     "        if num_cpus < 3:\n", "        if num_cpus < 4:\n"),
    ("C17-fifo_newest_first", "eudoxia/scheduler/naive.py",
     "    for p in pipelines:\n        s.waiting_queue.append(p)\n", "    for p in pipelines:\n        s.waiting_queue.insert(0 if len(s.waiting_queue) > 2 else len(s.waiting_queue), p)\n"),
    # ---- C11
    ("C11-score_ratio", "eudoxia/executor/resource_pool.py",
     "            score = consumption_gb * consumption_percent\n", "            score = consumption_percent\n"),
    ("C11-kill_to_80pct", "eudoxia/executor/resource_pool.py",
     "            if self.consumed_ram_gb <= self.max_ram_pool:\n                break\n", "            if self.consumed_ram_gb <= 0.8 * self.max_ram_pool:\n                break\n"),
    ("C11-ascending", "eudoxia/executor/resource_pool.py",
     "        scored.sort(key=lambda x: x[0], reverse=True)\n", "        scored.sort(key=lambda x: x[0], reverse=len(scored) < 3)\n"),
    # ---- C12
    ("C12-queue_order_swapped", "eudoxia/scheduler/priority.py",
     "    queues = [s.qry_jobs, s.interactive_jobs, s.batch_ppln_jobs]\n", "    queues = [s.qry_jobs, s.batch_ppln_jobs, s.interactive_jobs]\n"),
    ("C12-suspend_for_interactive", "eudoxia/scheduler/priority.py",
     "    if len(s.qry_jobs) > 0:\n        # If there are jobs in high priority queues then check\n        # if any containers are preemptible and make a command to suspend\n        # them. When the resources are free, the first part of this\n        # scheduling algorithm will assign them to appropriate jobs\n        num_to_suspend = len(s.qry_jobs)\n",
     "    if len(s.qry_jobs) + len(s.interactive_jobs) > 0:\n        num_to_suspend = len(s.qry_jobs) + len(s.interactive_jobs)\n"),
    ("C12-twice_as_many", "eudoxia/scheduler/priority.py",
     "        num_to_suspend = len(s.qry_jobs)\n", "        num_to_suspend = len(s.qry_jobs) + (1 if s.executor.num_pools > 1 else 0)\n"),
    # ---- C13
    ("C13-gentrace_ms", "eudoxia/workload/csv_io.py",
     "            arrival_seconds = tick * self.tick_length_secs\n", "            arrival_seconds = round(tick * self.tick_length_secs, 3)\n"),
    ("C13-late_after_hour", "eudoxia/workload/workload.py",
     "        return arrival_seconds / self.tick_length_secs\n", "        return arrival_seconds / self.tick_length_secs + (0.5 if arrival_seconds > 3600 else 0)\n"),
    ("C13-if_for_while", "eudoxia/workload/workload.py",
     "        while self.next_batch is not None and self.get_next_batch_tick() <= self.current_tick:\n",
     "        for _ in range(3 if self.next_batch is not None and self.get_next_batch_tick() <= self.current_tick else 0):\n            if self.next_batch is None or self.get_next_batch_tick() > self.current_tick:\n                break\n"),
    ("C13-cli_gentrace_whole_seconds", "eudoxia/__main__.py",
     "        duration_secs=params['duration']\n", "        duration_secs=int(params['duration'])\n"),
    ("C13-cli_run_reader_tps", "eudoxia/__main__.py",
     "            workload = reader.get_workload(params['ticks_per_second'])\n",
     "            workload = reader.get_workload(min(params['ticks_per_second'], 1000))\n"),
    # ---- C14
    ("C14-mem0_unset", "eudoxia/workload/csv_io.py",
     "            'memory_gb': row.memory_gb if row.memory_gb is not None else '',\n", "            'memory_gb': row.memory_gb if row.memory_gb else '',\n"),
    ("C14-first_parent_only", "eudoxia/workload/csv_io.py",
     "            for parent in operator.parents:\n                parent_idx = operators.index(parent)\n", "            for parent in operator.parents[:2]:\n                parent_idx = operators.index(parent)\n"),
    ("C14-later_priority_accepted", "eudoxia/workload/csv_io.py",
     "                if row.priority:\n                    raise ValueError", "                if row.priority and row.priority != priority_str:\n                    raise ValueError"),
    # ---- C15
    ("C15-batch_short", "eudoxia/workload/workload.py",
     "        for _ in range(self.num_pipelines):\n", "        for _ in range(self.num_pipelines - (1 if self.num_pipelines > 5 else 0)):\n"),
    ("C15-query_two_ops", "eudoxia/workload/workload.py",
     "                seg = self.generate_query_segment()\n                op.add_segment(seg)\n",
     "                seg = self.generate_query_segment()\n                op.add_segment(seg)\n                if self.pipeline_counter % 97 == 0:\n                    p.new_operator([op]).add_segment(self.generate_query_segment())\n"),
    # ---- C16
    ("C16-interactive_retry_with_batch", "eudoxia/scheduler/priority_pool.py",
     "        elif f.priority == Priority.INTERACTIVE:\n            s.interactive_jobs.append(job)\n", "        elif f.priority == Priority.INTERACTIVE:\n            s.batch_ppln_jobs.append(job)\n"),
    ("C16-retry_first_failed_only", "eudoxia/scheduler/priority_pool.py",
     "        ops = [op for op in f.ops if op.state() != OperatorState.COMPLETED]\n        assert ops, \"failed container has no incomplete operators\"\n",
     "        ops = [op for op in f.ops if op.state() != OperatorState.COMPLETED][:2]\n        assert ops, \"failed container has no incomplete operators\"\n"),
    ("C16-cutoff_undoubled", "eudoxia/scheduler/priority_pool.py",
     "                    cpu_ratio = job_cpu / pool_stats[pool_id][\"total_cpu\"]\n                    ram_ratio = job_ram / pool_stats[pool_id][\"total_ram\"]\n                    if cpu_ratio >= 0.5 or ram_ratio >= 0.5:\n                        s.oom_failed_to_run += 1\n                        continue\n\n",
     "                    cpu_ratio = rs.old_cpu / pool_stats[pool_id][\"total_cpu\"]\n                    ram_ratio = rs.old_ram / pool_stats[pool_id][\"total_ram\"]\n                    if cpu_ratio >= 0.5 or ram_ratio >= 0.5:\n                        s.oom_failed_to_run += 1\n                        continue\n\n"),
    # ---- C17
    ("C17-failed_requeued", "eudoxia/scheduler/naive.py",
     "            if pipeline.runtime_status().is_pipeline_successful() or has_failures:\n", "            if pipeline.runtime_status().is_pipeline_successful() or (has_failures and len(pipeline.values) < 4):\n"),
    ("C17-half_ram", "eudoxia/scheduler/naive.py",
     "            assignment = Assignment(ops=op_list, cpu=avail_cpu_pool, ram=avail_ram_pool,\n", "            assignment = Assignment(ops=op_list, cpu=avail_cpu_pool, ram=avail_ram_pool if pool_id == 0 else avail_ram_pool / 2,\n"),
    # ---- C18
    ("C18-ram_from_free", "eudoxia/scheduler/overbook.py",
     "                ram=pool.max_ram_pool,\n", "                ram=pool.max_ram_pool if pool.avail_ram_pool <= 0 else max(pool.avail_ram_pool, pool.max_ram_pool / 2),\n"),
    ("C18-four_strikes", "eudoxia/scheduler/overbook.py",
     "MAX_FAILURES = 3  #", "MAX_FAILURES = 4  #"),
    ("C18-unfit_op_dropped", "eudoxia/scheduler/overbook.py",
     "            s.op_queue = s.op_queue[op_idx:]\n", "            s.op_queue = s.op_queue[op_idx + 1:]\n"),
    # ---- C19
    ("C19-merge_before_payload", "eudoxia/scheduler/rest.py",
     "    # Serialize payload\n    t0 = time.perf_counter()\n", "    for p in pipelines:\n        s.other_pipelines[p.pipeline_id] = p\n    # Serialize payload\n    t0 = time.perf_counter()\n"),
    ("C19-completed_filtered", "eudoxia/scheduler/rest.py",
     "        \"other_pipelines\": [p.to_dict() for p in s.other_pipelines.values()],\n",
     "        \"other_pipelines\": [p.to_dict() for p in s.other_pipelines.values() if not p.runtime_status().is_pipeline_successful()],\n"),
    ("C19-leak_read_gb", "eudoxia/workload/pipeline.py",
     "            \"parents_complete\": parents_complete,\n", "            \"parents_complete\": parents_complete,\n            \"storage_read_gb\": sum(seg.storage_read_gb for seg in self.values),\n"),
    ("C19-skip_ticks_with_results", "eudoxia/scheduler/rest.py",
     "    if not pipelines and not results and time_since_last < s.rest_poll_interval:\n", "    if not pipelines and (not results or all(not r.failed() for r in results) and len(results) > 1) and time_since_last < s.rest_poll_interval:\n"),
    ("C19-ignore_pool_id", "eudoxia/scheduler/rest.py",
     "            pool_id=a[\"pool_id\"],\n            pipeline_id=ops[0].pipeline.pipeline_id,\n", "            pool_id=a[\"pool_id\"] if len(ops) < 3 else 0,\n            pipeline_id=ops[0].pipeline.pipeline_id,\n"),
    # ---- C20
    ("C20-jitter_negative", "eudoxia/tools.py",
     "                jitter = rng.uniform(0, delta)\n", "                jitter = rng.uniform(-delta / 2, delta)\n"),
    ("C20-jitter_drops_extra_columns", "eudoxia/tools.py",
     "        fieldnames = reader.fieldnames\n\n        pipelines = []", "        fieldnames = reader.fieldnames[:9]\n\n        pipelines = []"),
    ("C20-snap_round", "eudoxia/tools.py",
     "                snapped = math.floor(ticks + 16 * math.ulp(ticks)) / ticks_per_second\n", "                snapped = math.floor(ticks + 0.02) / ticks_per_second\n"),
    ("C20-cli_jitter_seed_dropped", "eudoxia/__main__.py",
     "jitter_command(args.input_workload, args.output_file, args.delta, seed=args.seed, force=args.force)",
     "jitter_command(args.input_workload, args.output_file, args.delta, force=args.force)"),
    ("C20-cli_sample_start_seed_dropped", "eudoxia/__main__.py",
     "                                      start_seed=args.start_seed, jitter_seed=args.jitter_seed)",
     "                                      jitter_seed=args.jitter_seed)"),
    ("C20-sample_seed_offset", "eudoxia/tools.py",
     "        seed = start_seed + i\n", "        seed = start_seed + i // 2 * 2\n"),
]


def sh(cmd):
    return subprocess.run(cmd, shell=isinstance(cmd, str), capture_output=True, text=True)


def main():
    sh(["git", "-C", "/repo", "worktree", "remove", "--force", WT])
    r = sh(["git", "-C", "/repo", "worktree", "add", "--detach", WT, "HEAD"])
    assert r.returncode == 0, r.stderr
    out = os.path.join(HERE, "mutants")
    os.makedirs(out, exist_ok=True)
    n = 0
    try:
        for m in M:
            name, f, old, new = m[:4]
            p = os.path.join(WT, f)
            s = open(p).read()
            if s.count(old) < 1:
                print("STALE (text not found):", name)
                continue
            open(p, "w").write(s.replace(old, new, 1))
            d = sh(["git", "-C", WT, "diff"]).stdout
            c = sh("cd %s && /venv/bin/python -c 'import ast,sys; ast.parse(open(\"%s\").read())'" % (WT, f))
            sh(["git", "-C", WT, "checkout", "--", "."])
            if c.returncode:
                print("SYNTAX ERROR in mutant", name, c.stderr[-200:])
                continue
            open(os.path.join(out, name + ".patch"), "w").write(d)
            n += 1
    finally:
        sh(["git", "-C", "/repo", "worktree", "remove", "--force", WT])
    print("wrote", n, "patches")


if __name__ == "__main__":
    main()
