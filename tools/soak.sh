#!/bin/sh
# usage: tools/soak.sh <first_seed> <last_seed> [tier]   -- runs every check (or those in $SOAK_CHECKS, in that order) under
# several seeds, prints anything but clean passes
cd "$(dirname "$0")/.." || exit 2
tier=${3:-quick}
bad=0
for seed in $(seq "$1" "$2"); do
  for p in ${SOAK_CHECKS:-C01 C02 C03 C04 C05 C06 C07 C08 C09 C10 C11 C12 C13 C14 C15 C16 C17 C18 C19 C20}; do
    out=$(VERIF_SEED=$seed ./check $p $tier 2>&1); rc=$?
    if [ $rc -ne 0 ] || echo "$out" | grep -q "VIOLATION\|HARNESS-ERROR"; then
      bad=$((bad+1)); echo "=== seed=$seed $p rc=$rc"; echo "$out" | grep -v "^KNOWN-FINDING" | cut -c1-600 | head -8
      mkdir -p soak_replays; cp -r replays/$p soak_replays/$p-$seed 2>/dev/null
    else
      echo "ok seed=$seed $(echo "$out" | tail -1)"
    fi
  done
done
echo "SOAK DONE bad=$bad"
