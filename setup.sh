#!/bin/sh
# Offline setup: nothing is built or installed; verify the interpreter and imports.
cd "$(dirname "$0")" || exit 2
mkdir -p evidence replays
PYTHONDONTWRITEBYTECODE=1 /venv/bin/python -B -c '
import sys
sys.path.insert(0, ".")
from vsim.common import import_repo
import_repo()
import numpy, requests, eudoxia
print("setup ok: eudoxia from", eudoxia.__file__)
' | tail -1
